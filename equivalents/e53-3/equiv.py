"""Equivalence check for refactoring 3 (ceos_alos2/sar_image/caching/__init__.py and path.py).

Run from the worktree root, with or without patch.diff applied:

    cd /tmp/wt7/e53 && PYTHONPATH=/tmp/wt7/e53 /venv/bin/python _eq/3/equiv.py
    cd /tmp/wt7/e53 && PYTHONPATH=/tmp/wt7/e53 /venv/bin/python -m pytest -q -p no:cacheprovider _eq/3/equiv.py

EXPECTED was recorded from the unchanged code (HEAD) with `equiv.py --record`.
"""
import sys
import pprint
import traceback

import numpy as np


def describe(obj):
    """Structural description (types included) of a result, as plain python data."""
    from ceos_alos2.array import Array
    from ceos_alos2.hierarchy import Group, Variable

    t = f"{type(obj).__module__}.{type(obj).__qualname__}"
    if isinstance(obj, Group):
        return (
            t,
            ("path", describe(obj.path)),
            ("url", describe(obj.url)),
            ("attrs", describe(obj.attrs)),
            ("data", describe(obj.data)),
        )
    if isinstance(obj, Variable):
        return (t, ("dims", describe(obj.dims)), ("attrs", describe(obj.attrs)), ("data", describe(obj.data)))
    if isinstance(obj, Array):
        fs = obj.fs
        return (
            t,
            ("fs", type(fs).__qualname__, getattr(fs, "path", None), type(getattr(fs, "fs", None)).__qualname__),
            ("url", describe(obj.url)),
            ("byte_ranges", describe(obj.byte_ranges)),
            ("shape", describe(obj.shape)),
            ("dtype", describe(obj.dtype)),
            ("type_code", describe(obj.type_code)),
            ("records_per_chunk", describe(obj.records_per_chunk)),
            ("chunk_offsets", describe(obj.chunk_offsets)),
        )
    if isinstance(obj, np.ndarray):
        return (t, str(obj.dtype), obj.shape, repr(obj.tolist()))
    if isinstance(obj, dict):
        return (t, [(describe(k), describe(v)) for k, v in obj.items()])
    if isinstance(obj, (list, tuple)):
        return (t, [describe(v) for v in obj])
    return (t, repr(obj))


def outcome(func, *args, **kwargs):
    try:
        result = func(*args, **kwargs)
    except BaseException as e:  # noqa: B902
        return ("raises", f"{type(e).__module__}.{type(e).__qualname__}", str(e))
    return ("returns", describe(result))


def run(observe, expected):
    observed = observe()
    if "--record" in sys.argv:
        pprint.pprint(observed, width=110, sort_dicts=False)
        return 0
    failures = []
    for key in expected.keys() | observed.keys():
        if expected.get(key, "<missing>") != observed.get(key, "<missing>"):
            failures.append(key)
    for key in sorted(failures):
        print("MISMATCH", key)
        print("  expected:", expected.get(key, "<missing>"))
        print("  observed:", observed.get(key, "<missing>"))
    assert not failures, f"{len(failures)} mismatching case(s)"
    print(f"OK: {len(observed)} cases identical to the recorded behaviour")
    return 0


def observe():
    import json
    import pathlib
    import shutil
    import tempfile

    import fsspec

    from ceos_alos2.hierarchy import Group, Variable
    from ceos_alos2.sar_image import caching
    from ceos_alos2.sar_image.caching import path as path_module
    from ceos_alos2.tests.utils import create_dummy_array

    out = {}

    # --- public names stay importable from where they were
    for name in [
        "CachingError",
        "encode",
        "decode",
        "read_cache",
        "create_cache",
        "decode_hierarchy",
        "postprocess",
        "encode_hierarchy",
        "preprocess",
        "local_cache_location",
        "remote_cache_location",
        "json",
        "path",
        "encoders",
        "decoders",
    ]:
        obj = getattr(caching, name, None)
        out[f"name/caching.{name}"] = (obj is not None, getattr(obj, "__name__", None))
    for name in ["project_name", "cache_root", "hashsum", "local_cache_location", "remote_cache_location", "hashlib", "platformdirs"]:
        obj = getattr(path_module, name, None)
        out[f"name/path.{name}"] = (obj is not None, getattr(obj, "__name__", None))
    out["name/reexport"] = (
        caching.local_cache_location is path_module.local_cache_location,
        caching.remote_cache_location is path_module.remote_cache_location,
    )
    out["CachingError"] = (
        caching.CachingError.__mro__[1].__name__,
        caching.CachingError.__module__,
        caching.CachingError.__qualname__,
    )
    out["constants"] = (path_module.project_name, path_module.cache_root.name, type(path_module.cache_root).__name__)

    # --- path helpers
    out["hashsum/default"] = outcome(path_module.hashsum, "ddeeaaddbbeeeeff")
    out["hashsum/empty"] = outcome(path_module.hashsum, "")
    out["hashsum/unicode"] = outcome(path_module.hashsum, "s3://bücket/ñ")
    out["hashsum/md5"] = outcome(path_module.hashsum, "abc", "md5")
    out["hashsum/sha1_kw"] = outcome(path_module.hashsum, "abc", algorithm="sha1")
    out["hashsum/unknown_algorithm"] = outcome(path_module.hashsum, "abc", "no-such-algorithm")
    out["hashsum/bytes"] = outcome(path_module.hashsum, b"abc")
    out["hashsum/none"] = outcome(path_module.hashsum, None)
    out["hashsum/both_bad"] = outcome(path_module.hashsum, None, "no-such-algorithm")

    roots = [
        "http://127.0.0.1/path/to/data",
        "s3://bucket/path/to/data",
        "file:///path/to/data",
        "/path/to/data",
        "",
        "memory://cache",
    ]
    paths = [
        "image1",
        "IMG-HH-ALOS2225333200-180726-WWDR1.1__D-F1",
        "sub/image2",
        "a/b/c/image3",
        "/leading/slash",
        "trailing/",
        "",
        "/",
        "with space/na me",
        "back\\slash",
        "dots/../x.y.index",
        "double//slash",
        5,
        None,
        pathlib.PurePosixPath("pure/posix"),
    ]
    original_root = path_module.cache_root
    try:
        for cache_dir in [original_root, pathlib.Path("/path/to/cache1") / "xarray-ceos-alos2", pathlib.PurePosixPath("relative")]:
            path_module.cache_root = cache_dir
            for root in roots:
                for p in paths:
                    result = outcome(path_module.local_cache_location, root, p)
                    if cache_dir is original_root and result[0] == "returns":
                        # machine specific prefix: only the part below the cache root
                        value = path_module.local_cache_location(root, p)
                        result = ("returns-relative", type(value).__name__, str(value.relative_to(original_root)))
                    out[f"local/{cache_dir.name}/{root!r}/{p!r}"] = result
        out["local/kw"] = outcome(path_module.local_cache_location, remote_root="s3://b", path="x/y")
        out["local/bad_root"] = outcome(path_module.local_cache_location, None, "x")
        out["local/bad_root_bytes"] = outcome(path_module.local_cache_location, b"s3://b", "x")
        path_module.cache_root = "not a path"
        out["local/str_cache_root"] = outcome(path_module.local_cache_location, "s3://b", "x")
        out["local/str_cache_root_bad_root"] = outcome(path_module.local_cache_location, None, "x")
    finally:
        path_module.cache_root = original_root
    for root in roots + [None]:
        for p in paths:
            out[f"remote/{root!r}/{p!r}"] = outcome(path_module.remote_cache_location, root, p)
    out["remote/kw"] = outcome(path_module.remote_cache_location, remote_root="s3://b", path="x/y")

    # --- encode / decode
    group = Group(
        path="/",
        url="s3://bucket/data",
        data={
            "v": Variable(["rows", "columns"], create_dummy_array(), {"a": (1, 2)}),
            "t": Variable("t", np.array(["2020-01-01", "2020-01-02"], dtype="datetime64[s]"), {}),
            "sub": Group(path=None, url=None, data={"w": Variable("x", np.array([1.5, 2.5]), {})}, attrs={"k": [1]}),
        },
        attrs={"x": {"y": (1, (2, 3))}},
    )
    empty = Group(path="/", url="s3://bucket/data", data={}, attrs={})
    unserialisable = Group(path="/", url=None, data={}, attrs={"s": {1, 2}})
    objects = {
        "group": group,
        "empty": empty,
        "variable": group["t"],
        "plain": {"a": (1, [2, (3,)])},
        "none": None,
        "unserialisable": unserialisable,
        "bytes": b"abc",
    }
    for key, obj in objects.items():
        out[f"encode/{key}"] = outcome(caching.encode, obj)
    text = caching.encode(group)
    for rpc in [2, None, "auto", -1]:
        out[f"decode/group/{rpc!r}"] = outcome(caching.decode, text, records_per_chunk=rpc)
        out[f"decode/group/positional/{rpc!r}"] = outcome(caching.decode, text, rpc)
    texts = {
        "empty_group": caching.encode(empty),
        "tuple": '{"__type__": "tuple", "data": [1, {"__type__": "tuple", "data": []}]}',
        "plain": '{"a": [1, 2]}',
        "empty_text": "",
        "truncated": text[: len(text) // 2],
        "garbage": "\x00\x01",
        "trailing": text + "}",
        "nan": '{"a": NaN}',
        "list": "[1, 2]",
        "number": "3",
        "bytes": text.encode(),
        "invalid_bytes": b"\xff\xfe",
        "none": None,
        "tuple_without_data": '{"__type__": "tuple"}',
        "group_missing_keys": '{"__type__": "group", "data": {}}',
    }
    for key, value in texts.items():
        result = outcome(caching.decode, value, records_per_chunk=2)
        out[f"decode/{key}"] = result
    try:
        caching.decode("{", records_per_chunk=2)
    except caching.CachingError as e:
        out["decode/cause"] = (type(e.__cause__).__name__, str(e.__cause__), e.args, isinstance(e, FileNotFoundError))

    # --- read_cache / create_cache with every request logged
    events = []

    class FakeMapper:
        def __init__(self, root, store, contains_error=None, getitem_error=None):
            self._root = root
            self._store = store
            self._contains_error = contains_error
            self._getitem_error = getitem_error

        @property
        def root(self):
            events.append(("mapper.root",))
            return self._root

        def __contains__(self, key):
            events.append(("mapper.__contains__", key))
            if self._contains_error is not None:
                raise self._contains_error
            return key in self._store

        def __getitem__(self, key):
            events.append(("mapper.__getitem__", key))
            if self._getitem_error is not None:
                raise self._getitem_error
            return self._store[key]

        def __getattr__(self, name):
            events.append(("mapper.getattr", name))
            raise AttributeError(name)

    local_files = {}
    local_errors = {}

    def rel(p):
        return str(p.relative_to(path_module.cache_root))

    def fake_is_file(self):
        events.append(("Path.is_file", rel(self)))
        error = local_errors.get(("is_file", self.name))
        if error is not None:
            raise error
        return self.name in local_files

    def fake_read_text(self, *args, **kwargs):
        events.append(("Path.read_text", rel(self), args, kwargs))
        error = local_errors.get(("read_text", self.name))
        if error is not None:
            raise error
        return local_files[self.name]

    def fake_mkdir(self, *args, **kwargs):
        events.append(("Path.mkdir", rel(self), args, kwargs))
        error = local_errors.get(("mkdir", self.name))
        if error is not None:
            raise error

    def fake_write_text(self, *args, **kwargs):
        events.append(("Path.write_text", rel(self), args, kwargs))
        error = local_errors.get(("write_text", self.name))
        if error is not None:
            raise error
        return 7

    def fake_exists(self, *args, **kwargs):
        events.append(("Path.exists", rel(self)))
        return self.name in local_files

    def fake_open(self, *args, **kwargs):
        events.append(("Path.open", rel(self), args, kwargs))
        raise OSError("open is not expected")

    patched = {
        "is_file": fake_is_file,
        "read_text": fake_read_text,
        "mkdir": fake_mkdir,
        "write_text": fake_write_text,
        "exists": fake_exists,
        "open": fake_open,
    }
    saved = {name: getattr(pathlib.Path, name) for name in patched}

    def logged(func, *args, **kwargs):
        events.clear()
        for name, replacement in patched.items():
            setattr(pathlib.Path, name, replacement)
        try:
            result = outcome(func, *args, **kwargs)
        finally:
            for name, original in saved.items():
                setattr(pathlib.Path, name, original)
        return (result, repr(list(events)))

    valid = caching.encode(group)
    other = caching.encode(empty)
    invalid = valid[:40]
    image_paths = ["image", "sub/dir/image", "/abs/image", "dir/", ""]
    for p in image_paths:
        index = f"{p}.index"
        base = f"/{p}".rsplit("/", 1)[1] + ".index"
        scenarios = {
            "none": ({}, {}),
            "local_only": ({base: valid}, {}),
            "remote_only": ({}, {index: other.encode()}),
            "both": ({base: valid}, {index: other.encode()}),
            "local_invalid_remote_valid": ({base: invalid}, {index: other.encode()}),
            "local_empty_remote_valid": ({base: ""}, {index: other.encode()}),
            "remote_invalid": ({}, {index: invalid.encode()}),
            "remote_empty": ({}, {index: b""}),
            "remote_not_utf8": ({}, {index: b"\xff\xfe{"}),
            "remote_str": ({}, {index: other}),
            "remote_under_basename_only": ({}, {base + ".not": other.encode(), "x/" + index: other.encode()}),
        }
        for key, (local, remote) in scenarios.items():
            local_files.clear()
            local_files.update(local)
            local_errors.clear()
            for rpc in [2, None]:
                mapper = FakeMapper("memory://cache", dict(remote))
                out[f"read_cache/{p!r}/{key}/{rpc!r}"] = logged(caching.read_cache, mapper, p, records_per_chunk=rpc)
            mapper = FakeMapper("memory://cache", dict(remote))
            out[f"read_cache/{p!r}/{key}/positional"] = logged(caching.read_cache, mapper, p, 3)

    local_files.clear()
    local_errors.clear()
    remote = {"image.index": other.encode()}
    errors = {
        "is_file_oserror": {("is_file", "image.index"): PermissionError("denied")},
        "read_text_oserror": {("read_text", "image.index"): OSError("gone")},
        "read_text_unicode": {("read_text", "image.index"): UnicodeDecodeError("utf-8", b"\xff", 0, 1, "bad")},
        "read_text_filenotfound": {("read_text", "image.index"): FileNotFoundError("vanished")},
    }
    for key, errs in errors.items():
        local_files.clear()
        local_files["image.index"] = valid
        local_errors.clear()
        local_errors.update(errs)
        out[f"read_cache/errors/{key}"] = logged(
            caching.read_cache, FakeMapper("memory://cache", dict(remote)), "image", records_per_chunk=2
        )
    local_files.clear()
    local_errors.clear()
    out["read_cache/errors/contains_raises"] = logged(
        caching.read_cache,
        FakeMapper("memory://cache", dict(remote), contains_error=ConnectionError("offline")),
        "image",
        records_per_chunk=2,
    )
    out["read_cache/errors/getitem_keyerror"] = logged(
        caching.read_cache,
        FakeMapper("memory://cache", dict(remote), getitem_error=KeyError("image.index")),
        "image",
        records_per_chunk=2,
    )
    out["read_cache/errors/getitem_filenotfound"] = logged(
        caching.read_cache,
        FakeMapper("memory://cache", dict(remote), getitem_error=FileNotFoundError("image.index")),
        "image",
        records_per_chunk=2,
    )
    out["read_cache/errors/root_none"] = logged(
        caching.read_cache, FakeMapper(None, dict(remote)), "image", records_per_chunk=2
    )
    out["read_cache/errors/no_root"] = logged(caching.read_cache, object(), "image", records_per_chunk=2)
    out["read_cache/errors/missing_rpc"] = logged(caching.read_cache, FakeMapper("memory://cache", dict(remote)), "image")
    for root in ["s3://bucket/a", "s3://bucket/b", ""]:
        out[f"read_cache/roots/{root!r}"] = logged(
            caching.read_cache, FakeMapper(root, dict(remote)), "image", records_per_chunk=2
        )
    try:
        caching.read_cache(FakeMapper("memory://cache", {}), "some/image", records_per_chunk=2)
    except caching.CachingError as e:
        out["read_cache/error_details"] = (e.args, repr(e.__cause__), repr(e.__context__), e.__suppress_context__)

    # create_cache
    for p in image_paths:
        for key, obj in objects.items():
            local_errors.clear()
            out[f"create_cache/{p!r}/{key}"] = logged(caching.create_cache, FakeMapper("memory://cache", {}), p, obj)
    local_errors.clear()
    local_errors[("mkdir", path_module.hashsum("memory://cache"))] = PermissionError("read-only")
    out["create_cache/mkdir_fails"] = logged(caching.create_cache, FakeMapper("memory://cache", {}), "image", group)
    out["create_cache/mkdir_fails_unserialisable"] = logged(
        caching.create_cache, FakeMapper("memory://cache", {}), "image", unserialisable
    )
    local_errors.clear()
    local_errors[("write_text", "image.index")] = OSError("disk full")
    out["create_cache/write_fails"] = logged(caching.create_cache, FakeMapper("memory://cache", {}), "image", group)
    local_errors.clear()
    out["create_cache/root_none"] = logged(caching.create_cache, FakeMapper(None, {}), "image", group)
    out["create_cache/kw"] = logged(caching.create_cache, mapper=FakeMapper("s3://b", {}), path="x/image", data=empty)

    # --- the real thing: real files below a temporary cache root, real memory mapper
    tmp = pathlib.Path(tempfile.mkdtemp(prefix="equiv3-"))
    try:
        path_module.cache_root = tmp / "cache"
        fs = fsspec.filesystem("memory")
        fs.store.clear() if hasattr(fs, "store") else None
        mapper = fsspec.get_mapper("memory://equiv3/data")
        out["real/miss"] = outcome(caching.read_cache, mapper, "sub/image", records_per_chunk=2)
        out["real/create"] = outcome(caching.create_cache, mapper, "sub/image", group)
        files = sorted(str(p.relative_to(tmp)) for p in tmp.rglob("*"))
        out["real/files"] = files
        out["real/content"] = [p.read_text() for p in tmp.rglob("*.index")]
        out["real/mapper_untouched"] = sorted(mapper.keys())
        out["real/hit_local"] = outcome(caching.read_cache, mapper, "sub/image", records_per_chunk=2)
        out["real/create_again"] = outcome(caching.create_cache, mapper, "sub/image", empty)
        out["real/content_again"] = [p.read_text() for p in tmp.rglob("*.index")]
        mapper["other/img.index"] = caching.encode(empty).encode()
        out["real/hit_remote"] = outcome(caching.read_cache, mapper, "other/img", records_per_chunk=2)
        out["real/other_root_misses"] = outcome(
            caching.read_cache, fsspec.get_mapper("memory://equiv3/elsewhere"), "sub/image", records_per_chunk=2
        )
        for p in tmp.rglob("*.index"):
            p.write_text("{ truncated")
        out["real/corrupt_local"] = outcome(caching.read_cache, mapper, "sub/image", records_per_chunk=2)
    finally:
        path_module.cache_root = original_root
        shutil.rmtree(tmp, ignore_errors=True)

    return out


EXPECTED = {'name/caching.CachingError': (True, 'CachingError'),
 'name/caching.encode': (True, 'encode'),
 'name/caching.decode': (True, 'decode'),
 'name/caching.read_cache': (True, 'read_cache'),
 'name/caching.create_cache': (True, 'create_cache'),
 'name/caching.decode_hierarchy': (True, 'decode_hierarchy'),
 'name/caching.postprocess': (True, 'postprocess'),
 'name/caching.encode_hierarchy': (True, 'encode_hierarchy'),
 'name/caching.preprocess': (True, 'preprocess'),
 'name/caching.local_cache_location': (True, 'local_cache_location'),
 'name/caching.remote_cache_location': (True, 'remote_cache_location'),
 'name/caching.json': (True, 'json'),
 'name/caching.path': (True, 'ceos_alos2.sar_image.caching.path'),
 'name/caching.encoders': (True, 'ceos_alos2.sar_image.caching.encoders'),
 'name/caching.decoders': (True, 'ceos_alos2.sar_image.caching.decoders'),
 'name/path.project_name': (True, None),
 'name/path.cache_root': (True, None),
 'name/path.hashsum': (True, 'hashsum'),
 'name/path.local_cache_location': (True, 'local_cache_location'),
 'name/path.remote_cache_location': (True, 'remote_cache_location'),
 'name/path.hashlib': (True, 'hashlib'),
 'name/path.platformdirs': (True, 'platformdirs'),
 'name/reexport': (True, True),
 'CachingError': ('FileNotFoundError', 'ceos_alos2.sar_image.caching', 'CachingError'),
 'constants': ('xarray-ceos-alos2', 'xarray-ceos-alos2', 'PosixPath'),
 'hashsum/default': ('returns',
                     ('builtins.str', "'b8be84665c5cd09ec19677ce9714bcd987422de886ac2e8432a3e2311b5f0cde'")),
 'hashsum/empty': ('returns',
                   ('builtins.str', "'e3b0c44298fc1c149afbf4c8996fb92427ae41e4649b934ca495991b7852b855'")),
 'hashsum/unicode': ('returns',
                     ('builtins.str', "'8068118dbd78aa834ce2d2b5acc5a03c12cd259702c29b36951d2927feaff142'")),
 'hashsum/md5': ('returns', ('builtins.str', "'900150983cd24fb0d6963f7d28e17f72'")),
 'hashsum/sha1_kw': ('returns', ('builtins.str', "'a9993e364706816aba3e25717850c26c9cd0d89d'")),
 'hashsum/unknown_algorithm': ('raises', 'builtins.ValueError', 'unsupported hash type no-such-algorithm'),
 'hashsum/bytes': ('raises', 'builtins.AttributeError', "'bytes' object has no attribute 'encode'"),
 'hashsum/none': ('raises', 'builtins.AttributeError', "'NoneType' object has no attribute 'encode'"),
 'hashsum/both_bad': ('raises', 'builtins.ValueError', 'unsupported hash type no-such-algorithm'),
 "local/xarray-ceos-alos2/'http://127.0.0.1/path/to/data'/'image1'": ('returns',
                                                                      ('pathlib.PosixPath',
                                                                       "PosixPath('/path/to/cache1/xarray-ceos-alos2/c9db4f27e586452c6517524752dc472863ee42230ba98e83a346b8da94a33235/image1.index')")),
 "local/xarray-ceos-alos2/'http://127.0.0.1/path/to/data'/'IMG-HH-ALOS2225333200-180726-WWDR1.1__D-F1'": ('returns',
                                                                                                          ('pathlib.PosixPath',
                                                                                                           "PosixPath('/path/to/cache1/xarray-ceos-alos2/c9db4f27e586452c6517524752dc472863ee42230ba98e83a346b8da94a33235/IMG-HH-ALOS2225333200-180726-WWDR1.1__D-F1.index')")),
 "local/xarray-ceos-alos2/'http://127.0.0.1/path/to/data'/'sub/image2'": ('returns',
                                                                          ('pathlib.PosixPath',
                                                                           "PosixPath('/path/to/cache1/xarray-ceos-alos2/c9db4f27e586452c6517524752dc472863ee42230ba98e83a346b8da94a33235/image2.index')")),
 "local/xarray-ceos-alos2/'http://127.0.0.1/path/to/data'/'a/b/c/image3'": ('returns',
                                                                            ('pathlib.PosixPath',
                                                                             "PosixPath('/path/to/cache1/xarray-ceos-alos2/c9db4f27e586452c6517524752dc472863ee42230ba98e83a346b8da94a33235/image3.index')")),
 "local/xarray-ceos-alos2/'http://127.0.0.1/path/to/data'/'/leading/slash'": ('returns',
                                                                              ('pathlib.PosixPath',
                                                                               "PosixPath('/path/to/cache1/xarray-ceos-alos2/c9db4f27e586452c6517524752dc472863ee42230ba98e83a346b8da94a33235/slash.index')")),
 "local/xarray-ceos-alos2/'http://127.0.0.1/path/to/data'/'trailing/'": ('returns',
                                                                         ('pathlib.PosixPath',
                                                                          "PosixPath('/path/to/cache1/xarray-ceos-alos2/c9db4f27e586452c6517524752dc472863ee42230ba98e83a346b8da94a33235/.index')")),
 "local/xarray-ceos-alos2/'http://127.0.0.1/path/to/data'/''": ('returns',
                                                                ('pathlib.PosixPath',
                                                                 "PosixPath('/path/to/cache1/xarray-ceos-alos2/c9db4f27e586452c6517524752dc472863ee42230ba98e83a346b8da94a33235/.index')")),
 "local/xarray-ceos-alos2/'http://127.0.0.1/path/to/data'/'/'": ('returns',
                                                                 ('pathlib.PosixPath',
                                                                  "PosixPath('/path/to/cache1/xarray-ceos-alos2/c9db4f27e586452c6517524752dc472863ee42230ba98e83a346b8da94a33235/.index')")),
 "local/xarray-ceos-alos2/'http://127.0.0.1/path/to/data'/'with space/na me'": ('returns',
                                                                                ('pathlib.PosixPath',
                                                                                 "PosixPath('/path/to/cache1/xarray-ceos-alos2/c9db4f27e586452c6517524752dc472863ee42230ba98e83a346b8da94a33235/na "
                                                                                 "me.index')")),
 "local/xarray-ceos-alos2/'http://127.0.0.1/path/to/data'/'back\\\\slash'": ('returns',
                                                                             ('pathlib.PosixPath',
                                                                              "PosixPath('/path/to/cache1/xarray-ceos-alos2/c9db4f27e586452c6517524752dc472863ee42230ba98e83a346b8da94a33235/back\\\\slash.index')")),
 "local/xarray-ceos-alos2/'http://127.0.0.1/path/to/data'/'dots/../x.y.index'": ('returns',
                                                                                 ('pathlib.PosixPath',
                                                                                  "PosixPath('/path/to/cache1/xarray-ceos-alos2/c9db4f27e586452c6517524752dc472863ee42230ba98e83a346b8da94a33235/x.y.index.index')")),
 "local/xarray-ceos-alos2/'http://127.0.0.1/path/to/data'/'double//slash'": ('returns',
                                                                             ('pathlib.PosixPath',
                                                                              "PosixPath('/path/to/cache1/xarray-ceos-alos2/c9db4f27e586452c6517524752dc472863ee42230ba98e83a346b8da94a33235/slash.index')")),
 "local/xarray-ceos-alos2/'http://127.0.0.1/path/to/data'/5": ('returns',
                                                               ('pathlib.PosixPath',
                                                                "PosixPath('/path/to/cache1/xarray-ceos-alos2/c9db4f27e586452c6517524752dc472863ee42230ba98e83a346b8da94a33235/5.index')")),
 "local/xarray-ceos-alos2/'http://127.0.0.1/path/to/data'/None": ('returns',
                                                                  ('pathlib.PosixPath',
                                                                   "PosixPath('/path/to/cache1/xarray-ceos-alos2/c9db4f27e586452c6517524752dc472863ee42230ba98e83a346b8da94a33235/None.index')")),
 "local/xarray-ceos-alos2/'http://127.0.0.1/path/to/data'/PurePosixPath('pure/posix')": ('returns',
                                                                                         ('pathlib.PosixPath',
                                                                                          "PosixPath('/path/to/cache1/xarray-ceos-alos2/c9db4f27e586452c6517524752dc472863ee42230ba98e83a346b8da94a33235/posix.index')")),
 "local/xarray-ceos-alos2/'s3://bucket/path/to/data'/'image1'": ('returns',
                                                                 ('pathlib.PosixPath',
                                                                  "PosixPath('/path/to/cache1/xarray-ceos-alos2/04391cfcf37045b78e7b4793392821b5b4c84591edfcb475954130eb34b87366/image1.index')")),
 "local/xarray-ceos-alos2/'s3://bucket/path/to/data'/'IMG-HH-ALOS2225333200-180726-WWDR1.1__D-F1'": ('returns',
                                                                                                     ('pathlib.PosixPath',
                                                                                                      "PosixPath('/path/to/cache1/xarray-ceos-alos2/04391cfcf37045b78e7b4793392821b5b4c84591edfcb475954130eb34b87366/IMG-HH-ALOS2225333200-180726-WWDR1.1__D-F1.index')")),
 "local/xarray-ceos-alos2/'s3://bucket/path/to/data'/'sub/image2'": ('returns',
                                                                     ('pathlib.PosixPath',
                                                                      "PosixPath('/path/to/cache1/xarray-ceos-alos2/04391cfcf37045b78e7b4793392821b5b4c84591edfcb475954130eb34b87366/image2.index')")),
 "local/xarray-ceos-alos2/'s3://bucket/path/to/data'/'a/b/c/image3'": ('returns',
                                                                       ('pathlib.PosixPath',
                                                                        "PosixPath('/path/to/cache1/xarray-ceos-alos2/04391cfcf37045b78e7b4793392821b5b4c84591edfcb475954130eb34b87366/image3.index')")),
 "local/xarray-ceos-alos2/'s3://bucket/path/to/data'/'/leading/slash'": ('returns',
                                                                         ('pathlib.PosixPath',
                                                                          "PosixPath('/path/to/cache1/xarray-ceos-alos2/04391cfcf37045b78e7b4793392821b5b4c84591edfcb475954130eb34b87366/slash.index')")),
 "local/xarray-ceos-alos2/'s3://bucket/path/to/data'/'trailing/'": ('returns',
                                                                    ('pathlib.PosixPath',
                                                                     "PosixPath('/path/to/cache1/xarray-ceos-alos2/04391cfcf37045b78e7b4793392821b5b4c84591edfcb475954130eb34b87366/.index')")),
 "local/xarray-ceos-alos2/'s3://bucket/path/to/data'/''": ('returns',
                                                           ('pathlib.PosixPath',
                                                            "PosixPath('/path/to/cache1/xarray-ceos-alos2/04391cfcf37045b78e7b4793392821b5b4c84591edfcb475954130eb34b87366/.index')")),
 "local/xarray-ceos-alos2/'s3://bucket/path/to/data'/'/'": ('returns',
                                                            ('pathlib.PosixPath',
                                                             "PosixPath('/path/to/cache1/xarray-ceos-alos2/04391cfcf37045b78e7b4793392821b5b4c84591edfcb475954130eb34b87366/.index')")),
 "local/xarray-ceos-alos2/'s3://bucket/path/to/data'/'with space/na me'": ('returns',
                                                                           ('pathlib.PosixPath',
                                                                            "PosixPath('/path/to/cache1/xarray-ceos-alos2/04391cfcf37045b78e7b4793392821b5b4c84591edfcb475954130eb34b87366/na "
                                                                            "me.index')")),
 "local/xarray-ceos-alos2/'s3://bucket/path/to/data'/'back\\\\slash'": ('returns',
                                                                        ('pathlib.PosixPath',
                                                                         "PosixPath('/path/to/cache1/xarray-ceos-alos2/04391cfcf37045b78e7b4793392821b5b4c84591edfcb475954130eb34b87366/back\\\\slash.index')")),
 "local/xarray-ceos-alos2/'s3://bucket/path/to/data'/'dots/../x.y.index'": ('returns',
                                                                            ('pathlib.PosixPath',
                                                                             "PosixPath('/path/to/cache1/xarray-ceos-alos2/04391cfcf37045b78e7b4793392821b5b4c84591edfcb475954130eb34b87366/x.y.index.index')")),
 "local/xarray-ceos-alos2/'s3://bucket/path/to/data'/'double//slash'": ('returns',
                                                                        ('pathlib.PosixPath',
                                                                         "PosixPath('/path/to/cache1/xarray-ceos-alos2/04391cfcf37045b78e7b4793392821b5b4c84591edfcb475954130eb34b87366/slash.index')")),
 "local/xarray-ceos-alos2/'s3://bucket/path/to/data'/5": ('returns',
                                                          ('pathlib.PosixPath',
                                                           "PosixPath('/path/to/cache1/xarray-ceos-alos2/04391cfcf37045b78e7b4793392821b5b4c84591edfcb475954130eb34b87366/5.index')")),
 "local/xarray-ceos-alos2/'s3://bucket/path/to/data'/None": ('returns',
                                                             ('pathlib.PosixPath',
                                                              "PosixPath('/path/to/cache1/xarray-ceos-alos2/04391cfcf37045b78e7b4793392821b5b4c84591edfcb475954130eb34b87366/None.index')")),
 "local/xarray-ceos-alos2/'s3://bucket/path/to/data'/PurePosixPath('pure/posix')": ('returns',
                                                                                    ('pathlib.PosixPath',
                                                                                     "PosixPath('/path/to/cache1/xarray-ceos-alos2/04391cfcf37045b78e7b4793392821b5b4c84591edfcb475954130eb34b87366/posix.index')")),
 "local/xarray-ceos-alos2/'file:///path/to/data'/'image1'": ('returns',
                                                             ('pathlib.PosixPath',
                                                              "PosixPath('/path/to/cache1/xarray-ceos-alos2/9506f2b2ddfa8498bc4c1d3cc50d02ee5f799f6716710ff4dd31a9f6e41eac45/image1.index')")),
 "local/xarray-ceos-alos2/'file:///path/to/data'/'IMG-HH-ALOS2225333200-180726-WWDR1.1__D-F1'": ('returns',
                                                                                                 ('pathlib.PosixPath',
                                                                                                  "PosixPath('/path/to/cache1/xarray-ceos-alos2/9506f2b2ddfa8498bc4c1d3cc50d02ee5f799f6716710ff4dd31a9f6e41eac45/IMG-HH-ALOS2225333200-180726-WWDR1.1__D-F1.index')")),
 "local/xarray-ceos-alos2/'file:///path/to/data'/'sub/image2'": ('returns',
                                                                 ('pathlib.PosixPath',
                                                                  "PosixPath('/path/to/cache1/xarray-ceos-alos2/9506f2b2ddfa8498bc4c1d3cc50d02ee5f799f6716710ff4dd31a9f6e41eac45/image2.index')")),
 "local/xarray-ceos-alos2/'file:///path/to/data'/'a/b/c/image3'": ('returns',
                                                                   ('pathlib.PosixPath',
                                                                    "PosixPath('/path/to/cache1/xarray-ceos-alos2/9506f2b2ddfa8498bc4c1d3cc50d02ee5f799f6716710ff4dd31a9f6e41eac45/image3.index')")),
 "local/xarray-ceos-alos2/'file:///path/to/data'/'/leading/slash'": ('returns',
                                                                     ('pathlib.PosixPath',
                                                                      "PosixPath('/path/to/cache1/xarray-ceos-alos2/9506f2b2ddfa8498bc4c1d3cc50d02ee5f799f6716710ff4dd31a9f6e41eac45/slash.index')")),
 "local/xarray-ceos-alos2/'file:///path/to/data'/'trailing/'": ('returns',
                                                                ('pathlib.PosixPath',
                                                                 "PosixPath('/path/to/cache1/xarray-ceos-alos2/9506f2b2ddfa8498bc4c1d3cc50d02ee5f799f6716710ff4dd31a9f6e41eac45/.index')")),
 "local/xarray-ceos-alos2/'file:///path/to/data'/''": ('returns',
                                                       ('pathlib.PosixPath',
                                                        "PosixPath('/path/to/cache1/xarray-ceos-alos2/9506f2b2ddfa8498bc4c1d3cc50d02ee5f799f6716710ff4dd31a9f6e41eac45/.index')")),
 "local/xarray-ceos-alos2/'file:///path/to/data'/'/'": ('returns',
                                                        ('pathlib.PosixPath',
                                                         "PosixPath('/path/to/cache1/xarray-ceos-alos2/9506f2b2ddfa8498bc4c1d3cc50d02ee5f799f6716710ff4dd31a9f6e41eac45/.index')")),
 "local/xarray-ceos-alos2/'file:///path/to/data'/'with space/na me'": ('returns',
                                                                       ('pathlib.PosixPath',
                                                                        "PosixPath('/path/to/cache1/xarray-ceos-alos2/9506f2b2ddfa8498bc4c1d3cc50d02ee5f799f6716710ff4dd31a9f6e41eac45/na "
                                                                        "me.index')")),
 "local/xarray-ceos-alos2/'file:///path/to/data'/'back\\\\slash'": ('returns',
                                                                    ('pathlib.PosixPath',
                                                                     "PosixPath('/path/to/cache1/xarray-ceos-alos2/9506f2b2ddfa8498bc4c1d3cc50d02ee5f799f6716710ff4dd31a9f6e41eac45/back\\\\slash.index')")),
 "local/xarray-ceos-alos2/'file:///path/to/data'/'dots/../x.y.index'": ('returns',
                                                                        ('pathlib.PosixPath',
                                                                         "PosixPath('/path/to/cache1/xarray-ceos-alos2/9506f2b2ddfa8498bc4c1d3cc50d02ee5f799f6716710ff4dd31a9f6e41eac45/x.y.index.index')")),
 "local/xarray-ceos-alos2/'file:///path/to/data'/'double//slash'": ('returns',
                                                                    ('pathlib.PosixPath',
                                                                     "PosixPath('/path/to/cache1/xarray-ceos-alos2/9506f2b2ddfa8498bc4c1d3cc50d02ee5f799f6716710ff4dd31a9f6e41eac45/slash.index')")),
 "local/xarray-ceos-alos2/'file:///path/to/data'/5": ('returns',
                                                      ('pathlib.PosixPath',
                                                       "PosixPath('/path/to/cache1/xarray-ceos-alos2/9506f2b2ddfa8498bc4c1d3cc50d02ee5f799f6716710ff4dd31a9f6e41eac45/5.index')")),
 "local/xarray-ceos-alos2/'file:///path/to/data'/None": ('returns',
                                                         ('pathlib.PosixPath',
                                                          "PosixPath('/path/to/cache1/xarray-ceos-alos2/9506f2b2ddfa8498bc4c1d3cc50d02ee5f799f6716710ff4dd31a9f6e41eac45/None.index')")),
 "local/xarray-ceos-alos2/'file:///path/to/data'/PurePosixPath('pure/posix')": ('returns',
                                                                                ('pathlib.PosixPath',
                                                                                 "PosixPath('/path/to/cache1/xarray-ceos-alos2/9506f2b2ddfa8498bc4c1d3cc50d02ee5f799f6716710ff4dd31a9f6e41eac45/posix.index')")),
 "local/xarray-ceos-alos2/'/path/to/data'/'image1'": ('returns',
                                                      ('pathlib.PosixPath',
                                                       "PosixPath('/path/to/cache1/xarray-ceos-alos2/7b405676e8ed8556a3f4f98f4dc5b6df940f3a5ce48674046eebda551e335b37/image1.index')")),
 "local/xarray-ceos-alos2/'/path/to/data'/'IMG-HH-ALOS2225333200-180726-WWDR1.1__D-F1'": ('returns',
                                                                                          ('pathlib.PosixPath',
                                                                                           "PosixPath('/path/to/cache1/xarray-ceos-alos2/7b405676e8ed8556a3f4f98f4dc5b6df940f3a5ce48674046eebda551e335b37/IMG-HH-ALOS2225333200-180726-WWDR1.1__D-F1.index')")),
 "local/xarray-ceos-alos2/'/path/to/data'/'sub/image2'": ('returns',
                                                          ('pathlib.PosixPath',
                                                           "PosixPath('/path/to/cache1/xarray-ceos-alos2/7b405676e8ed8556a3f4f98f4dc5b6df940f3a5ce48674046eebda551e335b37/image2.index')")),
 "local/xarray-ceos-alos2/'/path/to/data'/'a/b/c/image3'": ('returns',
                                                            ('pathlib.PosixPath',
                                                             "PosixPath('/path/to/cache1/xarray-ceos-alos2/7b405676e8ed8556a3f4f98f4dc5b6df940f3a5ce48674046eebda551e335b37/image3.index')")),
 "local/xarray-ceos-alos2/'/path/to/data'/'/leading/slash'": ('returns',
                                                              ('pathlib.PosixPath',
                                                               "PosixPath('/path/to/cache1/xarray-ceos-alos2/7b405676e8ed8556a3f4f98f4dc5b6df940f3a5ce48674046eebda551e335b37/slash.index')")),
 "local/xarray-ceos-alos2/'/path/to/data'/'trailing/'": ('returns',
                                                         ('pathlib.PosixPath',
                                                          "PosixPath('/path/to/cache1/xarray-ceos-alos2/7b405676e8ed8556a3f4f98f4dc5b6df940f3a5ce48674046eebda551e335b37/.index')")),
 "local/xarray-ceos-alos2/'/path/to/data'/''": ('returns',
                                                ('pathlib.PosixPath',
                                                 "PosixPath('/path/to/cache1/xarray-ceos-alos2/7b405676e8ed8556a3f4f98f4dc5b6df940f3a5ce48674046eebda551e335b37/.index')")),
 "local/xarray-ceos-alos2/'/path/to/data'/'/'": ('returns',
                                                 ('pathlib.PosixPath',
                                                  "PosixPath('/path/to/cache1/xarray-ceos-alos2/7b405676e8ed8556a3f4f98f4dc5b6df940f3a5ce48674046eebda551e335b37/.index')")),
 "local/xarray-ceos-alos2/'/path/to/data'/'with space/na me'": ('returns',
                                                                ('pathlib.PosixPath',
                                                                 "PosixPath('/path/to/cache1/xarray-ceos-alos2/7b405676e8ed8556a3f4f98f4dc5b6df940f3a5ce48674046eebda551e335b37/na "
                                                                 "me.index')")),
 "local/xarray-ceos-alos2/'/path/to/data'/'back\\\\slash'": ('returns',
                                                             ('pathlib.PosixPath',
                                                              "PosixPath('/path/to/cache1/xarray-ceos-alos2/7b405676e8ed8556a3f4f98f4dc5b6df940f3a5ce48674046eebda551e335b37/back\\\\slash.index')")),
 "local/xarray-ceos-alos2/'/path/to/data'/'dots/../x.y.index'": ('returns',
                                                                 ('pathlib.PosixPath',
                                                                  "PosixPath('/path/to/cache1/xarray-ceos-alos2/7b405676e8ed8556a3f4f98f4dc5b6df940f3a5ce48674046eebda551e335b37/x.y.index.index')")),
 "local/xarray-ceos-alos2/'/path/to/data'/'double//slash'": ('returns',
                                                             ('pathlib.PosixPath',
                                                              "PosixPath('/path/to/cache1/xarray-ceos-alos2/7b405676e8ed8556a3f4f98f4dc5b6df940f3a5ce48674046eebda551e335b37/slash.index')")),
 "local/xarray-ceos-alos2/'/path/to/data'/5": ('returns',
                                               ('pathlib.PosixPath',
                                                "PosixPath('/path/to/cache1/xarray-ceos-alos2/7b405676e8ed8556a3f4f98f4dc5b6df940f3a5ce48674046eebda551e335b37/5.index')")),
 "local/xarray-ceos-alos2/'/path/to/data'/None": ('returns',
                                                  ('pathlib.PosixPath',
                                                   "PosixPath('/path/to/cache1/xarray-ceos-alos2/7b405676e8ed8556a3f4f98f4dc5b6df940f3a5ce48674046eebda551e335b37/None.index')")),
 "local/xarray-ceos-alos2/'/path/to/data'/PurePosixPath('pure/posix')": ('returns',
                                                                         ('pathlib.PosixPath',
                                                                          "PosixPath('/path/to/cache1/xarray-ceos-alos2/7b405676e8ed8556a3f4f98f4dc5b6df940f3a5ce48674046eebda551e335b37/posix.index')")),
 "local/xarray-ceos-alos2/''/'image1'": ('returns',
                                         ('pathlib.PosixPath',
                                          "PosixPath('/path/to/cache1/xarray-ceos-alos2/e3b0c44298fc1c149afbf4c8996fb92427ae41e4649b934ca495991b7852b855/image1.index')")),
 "local/xarray-ceos-alos2/''/'IMG-HH-ALOS2225333200-180726-WWDR1.1__D-F1'": ('returns',
                                                                             ('pathlib.PosixPath',
                                                                              "PosixPath('/path/to/cache1/xarray-ceos-alos2/e3b0c44298fc1c149afbf4c8996fb92427ae41e4649b934ca495991b7852b855/IMG-HH-ALOS2225333200-180726-WWDR1.1__D-F1.index')")),
 "local/xarray-ceos-alos2/''/'sub/image2'": ('returns',
                                             ('pathlib.PosixPath',
                                              "PosixPath('/path/to/cache1/xarray-ceos-alos2/e3b0c44298fc1c149afbf4c8996fb92427ae41e4649b934ca495991b7852b855/image2.index')")),
 "local/xarray-ceos-alos2/''/'a/b/c/image3'": ('returns',
                                               ('pathlib.PosixPath',
                                                "PosixPath('/path/to/cache1/xarray-ceos-alos2/e3b0c44298fc1c149afbf4c8996fb92427ae41e4649b934ca495991b7852b855/image3.index')")),
 "local/xarray-ceos-alos2/''/'/leading/slash'": ('returns',
                                                 ('pathlib.PosixPath',
                                                  "PosixPath('/path/to/cache1/xarray-ceos-alos2/e3b0c44298fc1c149afbf4c8996fb92427ae41e4649b934ca495991b7852b855/slash.index')")),
 "local/xarray-ceos-alos2/''/'trailing/'": ('returns',
                                            ('pathlib.PosixPath',
                                             "PosixPath('/path/to/cache1/xarray-ceos-alos2/e3b0c44298fc1c149afbf4c8996fb92427ae41e4649b934ca495991b7852b855/.index')")),
 "local/xarray-ceos-alos2/''/''": ('returns',
                                   ('pathlib.PosixPath',
                                    "PosixPath('/path/to/cache1/xarray-ceos-alos2/e3b0c44298fc1c149afbf4c8996fb92427ae41e4649b934ca495991b7852b855/.index')")),
 "local/xarray-ceos-alos2/''/'/'": ('returns',
                                    ('pathlib.PosixPath',
                                     "PosixPath('/path/to/cache1/xarray-ceos-alos2/e3b0c44298fc1c149afbf4c8996fb92427ae41e4649b934ca495991b7852b855/.index')")),
 "local/xarray-ceos-alos2/''/'with space/na me'": ('returns',
                                                   ('pathlib.PosixPath',
                                                    "PosixPath('/path/to/cache1/xarray-ceos-alos2/e3b0c44298fc1c149afbf4c8996fb92427ae41e4649b934ca495991b7852b855/na "
                                                    "me.index')")),
 "local/xarray-ceos-alos2/''/'back\\\\slash'": ('returns',
                                                ('pathlib.PosixPath',
                                                 "PosixPath('/path/to/cache1/xarray-ceos-alos2/e3b0c44298fc1c149afbf4c8996fb92427ae41e4649b934ca495991b7852b855/back\\\\slash.index')")),
 "local/xarray-ceos-alos2/''/'dots/../x.y.index'": ('returns',
                                                    ('pathlib.PosixPath',
                                                     "PosixPath('/path/to/cache1/xarray-ceos-alos2/e3b0c44298fc1c149afbf4c8996fb92427ae41e4649b934ca495991b7852b855/x.y.index.index')")),
 "local/xarray-ceos-alos2/''/'double//slash'": ('returns',
                                                ('pathlib.PosixPath',
                                                 "PosixPath('/path/to/cache1/xarray-ceos-alos2/e3b0c44298fc1c149afbf4c8996fb92427ae41e4649b934ca495991b7852b855/slash.index')")),
 "local/xarray-ceos-alos2/''/5": ('returns',
                                  ('pathlib.PosixPath',
                                   "PosixPath('/path/to/cache1/xarray-ceos-alos2/e3b0c44298fc1c149afbf4c8996fb92427ae41e4649b934ca495991b7852b855/5.index')")),
 "local/xarray-ceos-alos2/''/None": ('returns',
                                     ('pathlib.PosixPath',
                                      "PosixPath('/path/to/cache1/xarray-ceos-alos2/e3b0c44298fc1c149afbf4c8996fb92427ae41e4649b934ca495991b7852b855/None.index')")),
 "local/xarray-ceos-alos2/''/PurePosixPath('pure/posix')": ('returns',
                                                            ('pathlib.PosixPath',
                                                             "PosixPath('/path/to/cache1/xarray-ceos-alos2/e3b0c44298fc1c149afbf4c8996fb92427ae41e4649b934ca495991b7852b855/posix.index')")),
 "local/xarray-ceos-alos2/'memory://cache'/'image1'": ('returns',
                                                       ('pathlib.PosixPath',
                                                        "PosixPath('/path/to/cache1/xarray-ceos-alos2/4f7cfeeaf747854a0a17f4fa6b2181e08de541609edf2ad148ca93567cf73d6a/image1.index')")),
 "local/xarray-ceos-alos2/'memory://cache'/'IMG-HH-ALOS2225333200-180726-WWDR1.1__D-F1'": ('returns',
                                                                                           ('pathlib.PosixPath',
                                                                                            "PosixPath('/path/to/cache1/xarray-ceos-alos2/4f7cfeeaf747854a0a17f4fa6b2181e08de541609edf2ad148ca93567cf73d6a/IMG-HH-ALOS2225333200-180726-WWDR1.1__D-F1.index')")),
 "local/xarray-ceos-alos2/'memory://cache'/'sub/image2'": ('returns',
                                                           ('pathlib.PosixPath',
                                                            "PosixPath('/path/to/cache1/xarray-ceos-alos2/4f7cfeeaf747854a0a17f4fa6b2181e08de541609edf2ad148ca93567cf73d6a/image2.index')")),
 "local/xarray-ceos-alos2/'memory://cache'/'a/b/c/image3'": ('returns',
                                                             ('pathlib.PosixPath',
                                                              "PosixPath('/path/to/cache1/xarray-ceos-alos2/4f7cfeeaf747854a0a17f4fa6b2181e08de541609edf2ad148ca93567cf73d6a/image3.index')")),
 "local/xarray-ceos-alos2/'memory://cache'/'/leading/slash'": ('returns',
                                                               ('pathlib.PosixPath',
                                                                "PosixPath('/path/to/cache1/xarray-ceos-alos2/4f7cfeeaf747854a0a17f4fa6b2181e08de541609edf2ad148ca93567cf73d6a/slash.index')")),
 "local/xarray-ceos-alos2/'memory://cache'/'trailing/'": ('returns',
                                                          ('pathlib.PosixPath',
                                                           "PosixPath('/path/to/cache1/xarray-ceos-alos2/4f7cfeeaf747854a0a17f4fa6b2181e08de541609edf2ad148ca93567cf73d6a/.index')")),
 "local/xarray-ceos-alos2/'memory://cache'/''": ('returns',
                                                 ('pathlib.PosixPath',
                                                  "PosixPath('/path/to/cache1/xarray-ceos-alos2/4f7cfeeaf747854a0a17f4fa6b2181e08de541609edf2ad148ca93567cf73d6a/.index')")),
 "local/xarray-ceos-alos2/'memory://cache'/'/'": ('returns',
                                                  ('pathlib.PosixPath',
                                                   "PosixPath('/path/to/cache1/xarray-ceos-alos2/4f7cfeeaf747854a0a17f4fa6b2181e08de541609edf2ad148ca93567cf73d6a/.index')")),
 "local/xarray-ceos-alos2/'memory://cache'/'with space/na me'": ('returns',
                                                                 ('pathlib.PosixPath',
                                                                  "PosixPath('/path/to/cache1/xarray-ceos-alos2/4f7cfeeaf747854a0a17f4fa6b2181e08de541609edf2ad148ca93567cf73d6a/na "
                                                                  "me.index')")),
 "local/xarray-ceos-alos2/'memory://cache'/'back\\\\slash'": ('returns',
                                                              ('pathlib.PosixPath',
                                                               "PosixPath('/path/to/cache1/xarray-ceos-alos2/4f7cfeeaf747854a0a17f4fa6b2181e08de541609edf2ad148ca93567cf73d6a/back\\\\slash.index')")),
 "local/xarray-ceos-alos2/'memory://cache'/'dots/../x.y.index'": ('returns',
                                                                  ('pathlib.PosixPath',
                                                                   "PosixPath('/path/to/cache1/xarray-ceos-alos2/4f7cfeeaf747854a0a17f4fa6b2181e08de541609edf2ad148ca93567cf73d6a/x.y.index.index')")),
 "local/xarray-ceos-alos2/'memory://cache'/'double//slash'": ('returns',
                                                              ('pathlib.PosixPath',
                                                               "PosixPath('/path/to/cache1/xarray-ceos-alos2/4f7cfeeaf747854a0a17f4fa6b2181e08de541609edf2ad148ca93567cf73d6a/slash.index')")),
 "local/xarray-ceos-alos2/'memory://cache'/5": ('returns',
                                                ('pathlib.PosixPath',
                                                 "PosixPath('/path/to/cache1/xarray-ceos-alos2/4f7cfeeaf747854a0a17f4fa6b2181e08de541609edf2ad148ca93567cf73d6a/5.index')")),
 "local/xarray-ceos-alos2/'memory://cache'/None": ('returns',
                                                   ('pathlib.PosixPath',
                                                    "PosixPath('/path/to/cache1/xarray-ceos-alos2/4f7cfeeaf747854a0a17f4fa6b2181e08de541609edf2ad148ca93567cf73d6a/None.index')")),
 "local/xarray-ceos-alos2/'memory://cache'/PurePosixPath('pure/posix')": ('returns',
                                                                          ('pathlib.PosixPath',
                                                                           "PosixPath('/path/to/cache1/xarray-ceos-alos2/4f7cfeeaf747854a0a17f4fa6b2181e08de541609edf2ad148ca93567cf73d6a/posix.index')")),
 "local/relative/'http://127.0.0.1/path/to/data'/'image1'": ('returns',
                                                             ('pathlib.PurePosixPath',
                                                              "PurePosixPath('relative/c9db4f27e586452c6517524752dc472863ee42230ba98e83a346b8da94a33235/image1.index')")),
 "local/relative/'http://127.0.0.1/path/to/data'/'IMG-HH-ALOS2225333200-180726-WWDR1.1__D-F1'": ('returns',
                                                                                                 ('pathlib.PurePosixPath',
                                                                                                  "PurePosixPath('relative/c9db4f27e586452c6517524752dc472863ee42230ba98e83a346b8da94a33235/IMG-HH-ALOS2225333200-180726-WWDR1.1__D-F1.index')")),
 "local/relative/'http://127.0.0.1/path/to/data'/'sub/image2'": ('returns',
                                                                 ('pathlib.PurePosixPath',
                                                                  "PurePosixPath('relative/c9db4f27e586452c6517524752dc472863ee42230ba98e83a346b8da94a33235/image2.index')")),
 "local/relative/'http://127.0.0.1/path/to/data'/'a/b/c/image3'": ('returns',
                                                                   ('pathlib.PurePosixPath',
                                                                    "PurePosixPath('relative/c9db4f27e586452c6517524752dc472863ee42230ba98e83a346b8da94a33235/image3.index')")),
 "local/relative/'http://127.0.0.1/path/to/data'/'/leading/slash'": ('returns',
                                                                     ('pathlib.PurePosixPath',
                                                                      "PurePosixPath('relative/c9db4f27e586452c6517524752dc472863ee42230ba98e83a346b8da94a33235/slash.index')")),
 "local/relative/'http://127.0.0.1/path/to/data'/'trailing/'": ('returns',
                                                                ('pathlib.PurePosixPath',
                                                                 "PurePosixPath('relative/c9db4f27e586452c6517524752dc472863ee42230ba98e83a346b8da94a33235/.index')")),
 "local/relative/'http://127.0.0.1/path/to/data'/''": ('returns',
                                                       ('pathlib.PurePosixPath',
                                                        "PurePosixPath('relative/c9db4f27e586452c6517524752dc472863ee42230ba98e83a346b8da94a33235/.index')")),
 "local/relative/'http://127.0.0.1/path/to/data'/'/'": ('returns',
                                                        ('pathlib.PurePosixPath',
                                                         "PurePosixPath('relative/c9db4f27e586452c6517524752dc472863ee42230ba98e83a346b8da94a33235/.index')")),
 "local/relative/'http://127.0.0.1/path/to/data'/'with space/na me'": ('returns',
                                                                       ('pathlib.PurePosixPath',
                                                                        "PurePosixPath('relative/c9db4f27e586452c6517524752dc472863ee42230ba98e83a346b8da94a33235/na "
                                                                        "me.index')")),
 "local/relative/'http://127.0.0.1/path/to/data'/'back\\\\slash'": ('returns',
                                                                    ('pathlib.PurePosixPath',
                                                                     "PurePosixPath('relative/c9db4f27e586452c6517524752dc472863ee42230ba98e83a346b8da94a33235/back\\\\slash.index')")),
 "local/relative/'http://127.0.0.1/path/to/data'/'dots/../x.y.index'": ('returns',
                                                                        ('pathlib.PurePosixPath',
                                                                         "PurePosixPath('relative/c9db4f27e586452c6517524752dc472863ee42230ba98e83a346b8da94a33235/x.y.index.index')")),
 "local/relative/'http://127.0.0.1/path/to/data'/'double//slash'": ('returns',
                                                                    ('pathlib.PurePosixPath',
                                                                     "PurePosixPath('relative/c9db4f27e586452c6517524752dc472863ee42230ba98e83a346b8da94a33235/slash.index')")),
 "local/relative/'http://127.0.0.1/path/to/data'/5": ('returns',
                                                      ('pathlib.PurePosixPath',
                                                       "PurePosixPath('relative/c9db4f27e586452c6517524752dc472863ee42230ba98e83a346b8da94a33235/5.index')")),
 "local/relative/'http://127.0.0.1/path/to/data'/None": ('returns',
                                                         ('pathlib.PurePosixPath',
                                                          "PurePosixPath('relative/c9db4f27e586452c6517524752dc472863ee42230ba98e83a346b8da94a33235/None.index')")),
 "local/relative/'http://127.0.0.1/path/to/data'/PurePosixPath('pure/posix')": ('returns',
                                                                                ('pathlib.PurePosixPath',
                                                                                 "PurePosixPath('relative/c9db4f27e586452c6517524752dc472863ee42230ba98e83a346b8da94a33235/posix.index')")),
 "local/relative/'s3://bucket/path/to/data'/'image1'": ('returns',
                                                        ('pathlib.PurePosixPath',
                                                         "PurePosixPath('relative/04391cfcf37045b78e7b4793392821b5b4c84591edfcb475954130eb34b87366/image1.index')")),
 "local/relative/'s3://bucket/path/to/data'/'IMG-HH-ALOS2225333200-180726-WWDR1.1__D-F1'": ('returns',
                                                                                            ('pathlib.PurePosixPath',
                                                                                             "PurePosixPath('relative/04391cfcf37045b78e7b4793392821b5b4c84591edfcb475954130eb34b87366/IMG-HH-ALOS2225333200-180726-WWDR1.1__D-F1.index')")),
 "local/relative/'s3://bucket/path/to/data'/'sub/image2'": ('returns',
                                                            ('pathlib.PurePosixPath',
                                                             "PurePosixPath('relative/04391cfcf37045b78e7b4793392821b5b4c84591edfcb475954130eb34b87366/image2.index')")),
 "local/relative/'s3://bucket/path/to/data'/'a/b/c/image3'": ('returns',
                                                              ('pathlib.PurePosixPath',
                                                               "PurePosixPath('relative/04391cfcf37045b78e7b4793392821b5b4c84591edfcb475954130eb34b87366/image3.index')")),
 "local/relative/'s3://bucket/path/to/data'/'/leading/slash'": ('returns',
                                                                ('pathlib.PurePosixPath',
                                                                 "PurePosixPath('relative/04391cfcf37045b78e7b4793392821b5b4c84591edfcb475954130eb34b87366/slash.index')")),
 "local/relative/'s3://bucket/path/to/data'/'trailing/'": ('returns',
                                                           ('pathlib.PurePosixPath',
                                                            "PurePosixPath('relative/04391cfcf37045b78e7b4793392821b5b4c84591edfcb475954130eb34b87366/.index')")),
 "local/relative/'s3://bucket/path/to/data'/''": ('returns',
                                                  ('pathlib.PurePosixPath',
                                                   "PurePosixPath('relative/04391cfcf37045b78e7b4793392821b5b4c84591edfcb475954130eb34b87366/.index')")),
 "local/relative/'s3://bucket/path/to/data'/'/'": ('returns',
                                                   ('pathlib.PurePosixPath',
                                                    "PurePosixPath('relative/04391cfcf37045b78e7b4793392821b5b4c84591edfcb475954130eb34b87366/.index')")),
 "local/relative/'s3://bucket/path/to/data'/'with space/na me'": ('returns',
                                                                  ('pathlib.PurePosixPath',
                                                                   "PurePosixPath('relative/04391cfcf37045b78e7b4793392821b5b4c84591edfcb475954130eb34b87366/na "
                                                                   "me.index')")),
 "local/relative/'s3://bucket/path/to/data'/'back\\\\slash'": ('returns',
                                                               ('pathlib.PurePosixPath',
                                                                "PurePosixPath('relative/04391cfcf37045b78e7b4793392821b5b4c84591edfcb475954130eb34b87366/back\\\\slash.index')")),
 "local/relative/'s3://bucket/path/to/data'/'dots/../x.y.index'": ('returns',
                                                                   ('pathlib.PurePosixPath',
                                                                    "PurePosixPath('relative/04391cfcf37045b78e7b4793392821b5b4c84591edfcb475954130eb34b87366/x.y.index.index')")),
 "local/relative/'s3://bucket/path/to/data'/'double//slash'": ('returns',
                                                               ('pathlib.PurePosixPath',
                                                                "PurePosixPath('relative/04391cfcf37045b78e7b4793392821b5b4c84591edfcb475954130eb34b87366/slash.index')")),
 "local/relative/'s3://bucket/path/to/data'/5": ('returns',
                                                 ('pathlib.PurePosixPath',
                                                  "PurePosixPath('relative/04391cfcf37045b78e7b4793392821b5b4c84591edfcb475954130eb34b87366/5.index')")),
 "local/relative/'s3://bucket/path/to/data'/None": ('returns',
                                                    ('pathlib.PurePosixPath',
                                                     "PurePosixPath('relative/04391cfcf37045b78e7b4793392821b5b4c84591edfcb475954130eb34b87366/None.index')")),
 "local/relative/'s3://bucket/path/to/data'/PurePosixPath('pure/posix')": ('returns',
                                                                           ('pathlib.PurePosixPath',
                                                                            "PurePosixPath('relative/04391cfcf37045b78e7b4793392821b5b4c84591edfcb475954130eb34b87366/posix.index')")),
 "local/relative/'file:///path/to/data'/'image1'": ('returns',
                                                    ('pathlib.PurePosixPath',
                                                     "PurePosixPath('relative/9506f2b2ddfa8498bc4c1d3cc50d02ee5f799f6716710ff4dd31a9f6e41eac45/image1.index')")),
 "local/relative/'file:///path/to/data'/'IMG-HH-ALOS2225333200-180726-WWDR1.1__D-F1'": ('returns',
                                                                                        ('pathlib.PurePosixPath',
                                                                                         "PurePosixPath('relative/9506f2b2ddfa8498bc4c1d3cc50d02ee5f799f6716710ff4dd31a9f6e41eac45/IMG-HH-ALOS2225333200-180726-WWDR1.1__D-F1.index')")),
 "local/relative/'file:///path/to/data'/'sub/image2'": ('returns',
                                                        ('pathlib.PurePosixPath',
                                                         "PurePosixPath('relative/9506f2b2ddfa8498bc4c1d3cc50d02ee5f799f6716710ff4dd31a9f6e41eac45/image2.index')")),
 "local/relative/'file:///path/to/data'/'a/b/c/image3'": ('returns',
                                                          ('pathlib.PurePosixPath',
                                                           "PurePosixPath('relative/9506f2b2ddfa8498bc4c1d3cc50d02ee5f799f6716710ff4dd31a9f6e41eac45/image3.index')")),
 "local/relative/'file:///path/to/data'/'/leading/slash'": ('returns',
                                                            ('pathlib.PurePosixPath',
                                                             "PurePosixPath('relative/9506f2b2ddfa8498bc4c1d3cc50d02ee5f799f6716710ff4dd31a9f6e41eac45/slash.index')")),
 "local/relative/'file:///path/to/data'/'trailing/'": ('returns',
                                                       ('pathlib.PurePosixPath',
                                                        "PurePosixPath('relative/9506f2b2ddfa8498bc4c1d3cc50d02ee5f799f6716710ff4dd31a9f6e41eac45/.index')")),
 "local/relative/'file:///path/to/data'/''": ('returns',
                                              ('pathlib.PurePosixPath',
                                               "PurePosixPath('relative/9506f2b2ddfa8498bc4c1d3cc50d02ee5f799f6716710ff4dd31a9f6e41eac45/.index')")),
 "local/relative/'file:///path/to/data'/'/'": ('returns',
                                               ('pathlib.PurePosixPath',
                                                "PurePosixPath('relative/9506f2b2ddfa8498bc4c1d3cc50d02ee5f799f6716710ff4dd31a9f6e41eac45/.index')")),
 "local/relative/'file:///path/to/data'/'with space/na me'": ('returns',
                                                              ('pathlib.PurePosixPath',
                                                               "PurePosixPath('relative/9506f2b2ddfa8498bc4c1d3cc50d02ee5f799f6716710ff4dd31a9f6e41eac45/na "
                                                               "me.index')")),
 "local/relative/'file:///path/to/data'/'back\\\\slash'": ('returns',
                                                           ('pathlib.PurePosixPath',
                                                            "PurePosixPath('relative/9506f2b2ddfa8498bc4c1d3cc50d02ee5f799f6716710ff4dd31a9f6e41eac45/back\\\\slash.index')")),
 "local/relative/'file:///path/to/data'/'dots/../x.y.index'": ('returns',
                                                               ('pathlib.PurePosixPath',
                                                                "PurePosixPath('relative/9506f2b2ddfa8498bc4c1d3cc50d02ee5f799f6716710ff4dd31a9f6e41eac45/x.y.index.index')")),
 "local/relative/'file:///path/to/data'/'double//slash'": ('returns',
                                                           ('pathlib.PurePosixPath',
                                                            "PurePosixPath('relative/9506f2b2ddfa8498bc4c1d3cc50d02ee5f799f6716710ff4dd31a9f6e41eac45/slash.index')")),
 "local/relative/'file:///path/to/data'/5": ('returns',
                                             ('pathlib.PurePosixPath',
                                              "PurePosixPath('relative/9506f2b2ddfa8498bc4c1d3cc50d02ee5f799f6716710ff4dd31a9f6e41eac45/5.index')")),
 "local/relative/'file:///path/to/data'/None": ('returns',
                                                ('pathlib.PurePosixPath',
                                                 "PurePosixPath('relative/9506f2b2ddfa8498bc4c1d3cc50d02ee5f799f6716710ff4dd31a9f6e41eac45/None.index')")),
 "local/relative/'file:///path/to/data'/PurePosixPath('pure/posix')": ('returns',
                                                                       ('pathlib.PurePosixPath',
                                                                        "PurePosixPath('relative/9506f2b2ddfa8498bc4c1d3cc50d02ee5f799f6716710ff4dd31a9f6e41eac45/posix.index')")),
 "local/relative/'/path/to/data'/'image1'": ('returns',
                                             ('pathlib.PurePosixPath',
                                              "PurePosixPath('relative/7b405676e8ed8556a3f4f98f4dc5b6df940f3a5ce48674046eebda551e335b37/image1.index')")),
 "local/relative/'/path/to/data'/'IMG-HH-ALOS2225333200-180726-WWDR1.1__D-F1'": ('returns',
                                                                                 ('pathlib.PurePosixPath',
                                                                                  "PurePosixPath('relative/7b405676e8ed8556a3f4f98f4dc5b6df940f3a5ce48674046eebda551e335b37/IMG-HH-ALOS2225333200-180726-WWDR1.1__D-F1.index')")),
 "local/relative/'/path/to/data'/'sub/image2'": ('returns',
                                                 ('pathlib.PurePosixPath',
                                                  "PurePosixPath('relative/7b405676e8ed8556a3f4f98f4dc5b6df940f3a5ce48674046eebda551e335b37/image2.index')")),
 "local/relative/'/path/to/data'/'a/b/c/image3'": ('returns',
                                                   ('pathlib.PurePosixPath',
                                                    "PurePosixPath('relative/7b405676e8ed8556a3f4f98f4dc5b6df940f3a5ce48674046eebda551e335b37/image3.index')")),
 "local/relative/'/path/to/data'/'/leading/slash'": ('returns',
                                                     ('pathlib.PurePosixPath',
                                                      "PurePosixPath('relative/7b405676e8ed8556a3f4f98f4dc5b6df940f3a5ce48674046eebda551e335b37/slash.index')")),
 "local/relative/'/path/to/data'/'trailing/'": ('returns',
                                                ('pathlib.PurePosixPath',
                                                 "PurePosixPath('relative/7b405676e8ed8556a3f4f98f4dc5b6df940f3a5ce48674046eebda551e335b37/.index')")),
 "local/relative/'/path/to/data'/''": ('returns',
                                       ('pathlib.PurePosixPath',
                                        "PurePosixPath('relative/7b405676e8ed8556a3f4f98f4dc5b6df940f3a5ce48674046eebda551e335b37/.index')")),
 "local/relative/'/path/to/data'/'/'": ('returns',
                                        ('pathlib.PurePosixPath',
                                         "PurePosixPath('relative/7b405676e8ed8556a3f4f98f4dc5b6df940f3a5ce48674046eebda551e335b37/.index')")),
 "local/relative/'/path/to/data'/'with space/na me'": ('returns',
                                                       ('pathlib.PurePosixPath',
                                                        "PurePosixPath('relative/7b405676e8ed8556a3f4f98f4dc5b6df940f3a5ce48674046eebda551e335b37/na "
                                                        "me.index')")),
 "local/relative/'/path/to/data'/'back\\\\slash'": ('returns',
                                                    ('pathlib.PurePosixPath',
                                                     "PurePosixPath('relative/7b405676e8ed8556a3f4f98f4dc5b6df940f3a5ce48674046eebda551e335b37/back\\\\slash.index')")),
 "local/relative/'/path/to/data'/'dots/../x.y.index'": ('returns',
                                                        ('pathlib.PurePosixPath',
                                                         "PurePosixPath('relative/7b405676e8ed8556a3f4f98f4dc5b6df940f3a5ce48674046eebda551e335b37/x.y.index.index')")),
 "local/relative/'/path/to/data'/'double//slash'": ('returns',
                                                    ('pathlib.PurePosixPath',
                                                     "PurePosixPath('relative/7b405676e8ed8556a3f4f98f4dc5b6df940f3a5ce48674046eebda551e335b37/slash.index')")),
 "local/relative/'/path/to/data'/5": ('returns',
                                      ('pathlib.PurePosixPath',
                                       "PurePosixPath('relative/7b405676e8ed8556a3f4f98f4dc5b6df940f3a5ce48674046eebda551e335b37/5.index')")),
 "local/relative/'/path/to/data'/None": ('returns',
                                         ('pathlib.PurePosixPath',
                                          "PurePosixPath('relative/7b405676e8ed8556a3f4f98f4dc5b6df940f3a5ce48674046eebda551e335b37/None.index')")),
 "local/relative/'/path/to/data'/PurePosixPath('pure/posix')": ('returns',
                                                                ('pathlib.PurePosixPath',
                                                                 "PurePosixPath('relative/7b405676e8ed8556a3f4f98f4dc5b6df940f3a5ce48674046eebda551e335b37/posix.index')")),
 "local/relative/''/'image1'": ('returns',
                                ('pathlib.PurePosixPath',
                                 "PurePosixPath('relative/e3b0c44298fc1c149afbf4c8996fb92427ae41e4649b934ca495991b7852b855/image1.index')")),
 "local/relative/''/'IMG-HH-ALOS2225333200-180726-WWDR1.1__D-F1'": ('returns',
                                                                    ('pathlib.PurePosixPath',
                                                                     "PurePosixPath('relative/e3b0c44298fc1c149afbf4c8996fb92427ae41e4649b934ca495991b7852b855/IMG-HH-ALOS2225333200-180726-WWDR1.1__D-F1.index')")),
 "local/relative/''/'sub/image2'": ('returns',
                                    ('pathlib.PurePosixPath',
                                     "PurePosixPath('relative/e3b0c44298fc1c149afbf4c8996fb92427ae41e4649b934ca495991b7852b855/image2.index')")),
 "local/relative/''/'a/b/c/image3'": ('returns',
                                      ('pathlib.PurePosixPath',
                                       "PurePosixPath('relative/e3b0c44298fc1c149afbf4c8996fb92427ae41e4649b934ca495991b7852b855/image3.index')")),
 "local/relative/''/'/leading/slash'": ('returns',
                                        ('pathlib.PurePosixPath',
                                         "PurePosixPath('relative/e3b0c44298fc1c149afbf4c8996fb92427ae41e4649b934ca495991b7852b855/slash.index')")),
 "local/relative/''/'trailing/'": ('returns',
                                   ('pathlib.PurePosixPath',
                                    "PurePosixPath('relative/e3b0c44298fc1c149afbf4c8996fb92427ae41e4649b934ca495991b7852b855/.index')")),
 "local/relative/''/''": ('returns',
                          ('pathlib.PurePosixPath',
                           "PurePosixPath('relative/e3b0c44298fc1c149afbf4c8996fb92427ae41e4649b934ca495991b7852b855/.index')")),
 "local/relative/''/'/'": ('returns',
                           ('pathlib.PurePosixPath',
                            "PurePosixPath('relative/e3b0c44298fc1c149afbf4c8996fb92427ae41e4649b934ca495991b7852b855/.index')")),
 "local/relative/''/'with space/na me'": ('returns',
                                          ('pathlib.PurePosixPath',
                                           "PurePosixPath('relative/e3b0c44298fc1c149afbf4c8996fb92427ae41e4649b934ca495991b7852b855/na "
                                           "me.index')")),
 "local/relative/''/'back\\\\slash'": ('returns',
                                       ('pathlib.PurePosixPath',
                                        "PurePosixPath('relative/e3b0c44298fc1c149afbf4c8996fb92427ae41e4649b934ca495991b7852b855/back\\\\slash.index')")),
 "local/relative/''/'dots/../x.y.index'": ('returns',
                                           ('pathlib.PurePosixPath',
                                            "PurePosixPath('relative/e3b0c44298fc1c149afbf4c8996fb92427ae41e4649b934ca495991b7852b855/x.y.index.index')")),
 "local/relative/''/'double//slash'": ('returns',
                                       ('pathlib.PurePosixPath',
                                        "PurePosixPath('relative/e3b0c44298fc1c149afbf4c8996fb92427ae41e4649b934ca495991b7852b855/slash.index')")),
 "local/relative/''/5": ('returns',
                         ('pathlib.PurePosixPath',
                          "PurePosixPath('relative/e3b0c44298fc1c149afbf4c8996fb92427ae41e4649b934ca495991b7852b855/5.index')")),
 "local/relative/''/None": ('returns',
                            ('pathlib.PurePosixPath',
                             "PurePosixPath('relative/e3b0c44298fc1c149afbf4c8996fb92427ae41e4649b934ca495991b7852b855/None.index')")),
 "local/relative/''/PurePosixPath('pure/posix')": ('returns',
                                                   ('pathlib.PurePosixPath',
                                                    "PurePosixPath('relative/e3b0c44298fc1c149afbf4c8996fb92427ae41e4649b934ca495991b7852b855/posix.index')")),
 "local/relative/'memory://cache'/'image1'": ('returns',
                                              ('pathlib.PurePosixPath',
                                               "PurePosixPath('relative/4f7cfeeaf747854a0a17f4fa6b2181e08de541609edf2ad148ca93567cf73d6a/image1.index')")),
 "local/relative/'memory://cache'/'IMG-HH-ALOS2225333200-180726-WWDR1.1__D-F1'": ('returns',
                                                                                  ('pathlib.PurePosixPath',
                                                                                   "PurePosixPath('relative/4f7cfeeaf747854a0a17f4fa6b2181e08de541609edf2ad148ca93567cf73d6a/IMG-HH-ALOS2225333200-180726-WWDR1.1__D-F1.index')")),
 "local/relative/'memory://cache'/'sub/image2'": ('returns',
                                                  ('pathlib.PurePosixPath',
                                                   "PurePosixPath('relative/4f7cfeeaf747854a0a17f4fa6b2181e08de541609edf2ad148ca93567cf73d6a/image2.index')")),
 "local/relative/'memory://cache'/'a/b/c/image3'": ('returns',
                                                    ('pathlib.PurePosixPath',
                                                     "PurePosixPath('relative/4f7cfeeaf747854a0a17f4fa6b2181e08de541609edf2ad148ca93567cf73d6a/image3.index')")),
 "local/relative/'memory://cache'/'/leading/slash'": ('returns',
                                                      ('pathlib.PurePosixPath',
                                                       "PurePosixPath('relative/4f7cfeeaf747854a0a17f4fa6b2181e08de541609edf2ad148ca93567cf73d6a/slash.index')")),
 "local/relative/'memory://cache'/'trailing/'": ('returns',
                                                 ('pathlib.PurePosixPath',
                                                  "PurePosixPath('relative/4f7cfeeaf747854a0a17f4fa6b2181e08de541609edf2ad148ca93567cf73d6a/.index')")),
 "local/relative/'memory://cache'/''": ('returns',
                                        ('pathlib.PurePosixPath',
                                         "PurePosixPath('relative/4f7cfeeaf747854a0a17f4fa6b2181e08de541609edf2ad148ca93567cf73d6a/.index')")),
 "local/relative/'memory://cache'/'/'": ('returns',
                                         ('pathlib.PurePosixPath',
                                          "PurePosixPath('relative/4f7cfeeaf747854a0a17f4fa6b2181e08de541609edf2ad148ca93567cf73d6a/.index')")),
 "local/relative/'memory://cache'/'with space/na me'": ('returns',
                                                        ('pathlib.PurePosixPath',
                                                         "PurePosixPath('relative/4f7cfeeaf747854a0a17f4fa6b2181e08de541609edf2ad148ca93567cf73d6a/na "
                                                         "me.index')")),
 "local/relative/'memory://cache'/'back\\\\slash'": ('returns',
                                                     ('pathlib.PurePosixPath',
                                                      "PurePosixPath('relative/4f7cfeeaf747854a0a17f4fa6b2181e08de541609edf2ad148ca93567cf73d6a/back\\\\slash.index')")),
 "local/relative/'memory://cache'/'dots/../x.y.index'": ('returns',
                                                         ('pathlib.PurePosixPath',
                                                          "PurePosixPath('relative/4f7cfeeaf747854a0a17f4fa6b2181e08de541609edf2ad148ca93567cf73d6a/x.y.index.index')")),
 "local/relative/'memory://cache'/'double//slash'": ('returns',
                                                     ('pathlib.PurePosixPath',
                                                      "PurePosixPath('relative/4f7cfeeaf747854a0a17f4fa6b2181e08de541609edf2ad148ca93567cf73d6a/slash.index')")),
 "local/relative/'memory://cache'/5": ('returns',
                                       ('pathlib.PurePosixPath',
                                        "PurePosixPath('relative/4f7cfeeaf747854a0a17f4fa6b2181e08de541609edf2ad148ca93567cf73d6a/5.index')")),
 "local/relative/'memory://cache'/None": ('returns',
                                          ('pathlib.PurePosixPath',
                                           "PurePosixPath('relative/4f7cfeeaf747854a0a17f4fa6b2181e08de541609edf2ad148ca93567cf73d6a/None.index')")),
 "local/relative/'memory://cache'/PurePosixPath('pure/posix')": ('returns',
                                                                 ('pathlib.PurePosixPath',
                                                                  "PurePosixPath('relative/4f7cfeeaf747854a0a17f4fa6b2181e08de541609edf2ad148ca93567cf73d6a/posix.index')")),
 'local/kw': ('returns',
              ('pathlib.PurePosixPath',
               "PurePosixPath('relative/cea59027f18ebad643825fcd6fe94a423be5c93f12493493fe153fc9e716b1eb/y.index')")),
 'local/bad_root': ('raises', 'builtins.AttributeError', "'NoneType' object has no attribute 'encode'"),
 'local/bad_root_bytes': ('raises', 'builtins.AttributeError', "'bytes' object has no attribute 'encode'"),
 'local/str_cache_root': ('raises',
                          'builtins.TypeError',
                          "unsupported operand type(s) for /: 'str' and 'str'"),
 'local/str_cache_root_bad_root': ('raises',
                                   'builtins.AttributeError',
                                   "'NoneType' object has no attribute 'encode'"),
 "remote/'http://127.0.0.1/path/to/data'/'image1'": ('returns', ('builtins.str', "'image1.index'")),
 "remote/'http://127.0.0.1/path/to/data'/'IMG-HH-ALOS2225333200-180726-WWDR1.1__D-F1'": ('returns',
                                                                                         ('builtins.str',
                                                                                          "'IMG-HH-ALOS2225333200-180726-WWDR1.1__D-F1.index'")),
 "remote/'http://127.0.0.1/path/to/data'/'sub/image2'": ('returns', ('builtins.str', "'sub/image2.index'")),
 "remote/'http://127.0.0.1/path/to/data'/'a/b/c/image3'": ('returns',
                                                           ('builtins.str', "'a/b/c/image3.index'")),
 "remote/'http://127.0.0.1/path/to/data'/'/leading/slash'": ('returns',
                                                             ('builtins.str', "'/leading/slash.index'")),
 "remote/'http://127.0.0.1/path/to/data'/'trailing/'": ('returns', ('builtins.str', "'trailing/.index'")),
 "remote/'http://127.0.0.1/path/to/data'/''": ('returns', ('builtins.str', "'.index'")),
 "remote/'http://127.0.0.1/path/to/data'/'/'": ('returns', ('builtins.str', "'/.index'")),
 "remote/'http://127.0.0.1/path/to/data'/'with space/na me'": ('returns',
                                                               ('builtins.str', "'with space/na me.index'")),
 "remote/'http://127.0.0.1/path/to/data'/'back\\\\slash'": ('returns',
                                                            ('builtins.str', "'back\\\\slash.index'")),
 "remote/'http://127.0.0.1/path/to/data'/'dots/../x.y.index'": ('returns',
                                                                ('builtins.str',
                                                                 "'dots/../x.y.index.index'")),
 "remote/'http://127.0.0.1/path/to/data'/'double//slash'": ('returns',
                                                            ('builtins.str', "'double//slash.index'")),
 "remote/'http://127.0.0.1/path/to/data'/5": ('returns', ('builtins.str', "'5.index'")),
 "remote/'http://127.0.0.1/path/to/data'/None": ('returns', ('builtins.str', "'None.index'")),
 "remote/'http://127.0.0.1/path/to/data'/PurePosixPath('pure/posix')": ('returns',
                                                                        ('builtins.str',
                                                                         "'pure/posix.index'")),
 "remote/'s3://bucket/path/to/data'/'image1'": ('returns', ('builtins.str', "'image1.index'")),
 "remote/'s3://bucket/path/to/data'/'IMG-HH-ALOS2225333200-180726-WWDR1.1__D-F1'": ('returns',
                                                                                    ('builtins.str',
                                                                                     "'IMG-HH-ALOS2225333200-180726-WWDR1.1__D-F1.index'")),
 "remote/'s3://bucket/path/to/data'/'sub/image2'": ('returns', ('builtins.str', "'sub/image2.index'")),
 "remote/'s3://bucket/path/to/data'/'a/b/c/image3'": ('returns', ('builtins.str', "'a/b/c/image3.index'")),
 "remote/'s3://bucket/path/to/data'/'/leading/slash'": ('returns',
                                                        ('builtins.str', "'/leading/slash.index'")),
 "remote/'s3://bucket/path/to/data'/'trailing/'": ('returns', ('builtins.str', "'trailing/.index'")),
 "remote/'s3://bucket/path/to/data'/''": ('returns', ('builtins.str', "'.index'")),
 "remote/'s3://bucket/path/to/data'/'/'": ('returns', ('builtins.str', "'/.index'")),
 "remote/'s3://bucket/path/to/data'/'with space/na me'": ('returns',
                                                          ('builtins.str', "'with space/na me.index'")),
 "remote/'s3://bucket/path/to/data'/'back\\\\slash'": ('returns', ('builtins.str', "'back\\\\slash.index'")),
 "remote/'s3://bucket/path/to/data'/'dots/../x.y.index'": ('returns',
                                                           ('builtins.str', "'dots/../x.y.index.index'")),
 "remote/'s3://bucket/path/to/data'/'double//slash'": ('returns', ('builtins.str', "'double//slash.index'")),
 "remote/'s3://bucket/path/to/data'/5": ('returns', ('builtins.str', "'5.index'")),
 "remote/'s3://bucket/path/to/data'/None": ('returns', ('builtins.str', "'None.index'")),
 "remote/'s3://bucket/path/to/data'/PurePosixPath('pure/posix')": ('returns',
                                                                   ('builtins.str', "'pure/posix.index'")),
 "remote/'file:///path/to/data'/'image1'": ('returns', ('builtins.str', "'image1.index'")),
 "remote/'file:///path/to/data'/'IMG-HH-ALOS2225333200-180726-WWDR1.1__D-F1'": ('returns',
                                                                                ('builtins.str',
                                                                                 "'IMG-HH-ALOS2225333200-180726-WWDR1.1__D-F1.index'")),
 "remote/'file:///path/to/data'/'sub/image2'": ('returns', ('builtins.str', "'sub/image2.index'")),
 "remote/'file:///path/to/data'/'a/b/c/image3'": ('returns', ('builtins.str', "'a/b/c/image3.index'")),
 "remote/'file:///path/to/data'/'/leading/slash'": ('returns', ('builtins.str', "'/leading/slash.index'")),
 "remote/'file:///path/to/data'/'trailing/'": ('returns', ('builtins.str', "'trailing/.index'")),
 "remote/'file:///path/to/data'/''": ('returns', ('builtins.str', "'.index'")),
 "remote/'file:///path/to/data'/'/'": ('returns', ('builtins.str', "'/.index'")),
 "remote/'file:///path/to/data'/'with space/na me'": ('returns',
                                                      ('builtins.str', "'with space/na me.index'")),
 "remote/'file:///path/to/data'/'back\\\\slash'": ('returns', ('builtins.str', "'back\\\\slash.index'")),
 "remote/'file:///path/to/data'/'dots/../x.y.index'": ('returns',
                                                       ('builtins.str', "'dots/../x.y.index.index'")),
 "remote/'file:///path/to/data'/'double//slash'": ('returns', ('builtins.str', "'double//slash.index'")),
 "remote/'file:///path/to/data'/5": ('returns', ('builtins.str', "'5.index'")),
 "remote/'file:///path/to/data'/None": ('returns', ('builtins.str', "'None.index'")),
 "remote/'file:///path/to/data'/PurePosixPath('pure/posix')": ('returns',
                                                               ('builtins.str', "'pure/posix.index'")),
 "remote/'/path/to/data'/'image1'": ('returns', ('builtins.str', "'image1.index'")),
 "remote/'/path/to/data'/'IMG-HH-ALOS2225333200-180726-WWDR1.1__D-F1'": ('returns',
                                                                         ('builtins.str',
                                                                          "'IMG-HH-ALOS2225333200-180726-WWDR1.1__D-F1.index'")),
 "remote/'/path/to/data'/'sub/image2'": ('returns', ('builtins.str', "'sub/image2.index'")),
 "remote/'/path/to/data'/'a/b/c/image3'": ('returns', ('builtins.str', "'a/b/c/image3.index'")),
 "remote/'/path/to/data'/'/leading/slash'": ('returns', ('builtins.str', "'/leading/slash.index'")),
 "remote/'/path/to/data'/'trailing/'": ('returns', ('builtins.str', "'trailing/.index'")),
 "remote/'/path/to/data'/''": ('returns', ('builtins.str', "'.index'")),
 "remote/'/path/to/data'/'/'": ('returns', ('builtins.str', "'/.index'")),
 "remote/'/path/to/data'/'with space/na me'": ('returns', ('builtins.str', "'with space/na me.index'")),
 "remote/'/path/to/data'/'back\\\\slash'": ('returns', ('builtins.str', "'back\\\\slash.index'")),
 "remote/'/path/to/data'/'dots/../x.y.index'": ('returns', ('builtins.str', "'dots/../x.y.index.index'")),
 "remote/'/path/to/data'/'double//slash'": ('returns', ('builtins.str', "'double//slash.index'")),
 "remote/'/path/to/data'/5": ('returns', ('builtins.str', "'5.index'")),
 "remote/'/path/to/data'/None": ('returns', ('builtins.str', "'None.index'")),
 "remote/'/path/to/data'/PurePosixPath('pure/posix')": ('returns', ('builtins.str', "'pure/posix.index'")),
 "remote/''/'image1'": ('returns', ('builtins.str', "'image1.index'")),
 "remote/''/'IMG-HH-ALOS2225333200-180726-WWDR1.1__D-F1'": ('returns',
                                                            ('builtins.str',
                                                             "'IMG-HH-ALOS2225333200-180726-WWDR1.1__D-F1.index'")),
 "remote/''/'sub/image2'": ('returns', ('builtins.str', "'sub/image2.index'")),
 "remote/''/'a/b/c/image3'": ('returns', ('builtins.str', "'a/b/c/image3.index'")),
 "remote/''/'/leading/slash'": ('returns', ('builtins.str', "'/leading/slash.index'")),
 "remote/''/'trailing/'": ('returns', ('builtins.str', "'trailing/.index'")),
 "remote/''/''": ('returns', ('builtins.str', "'.index'")),
 "remote/''/'/'": ('returns', ('builtins.str', "'/.index'")),
 "remote/''/'with space/na me'": ('returns', ('builtins.str', "'with space/na me.index'")),
 "remote/''/'back\\\\slash'": ('returns', ('builtins.str', "'back\\\\slash.index'")),
 "remote/''/'dots/../x.y.index'": ('returns', ('builtins.str', "'dots/../x.y.index.index'")),
 "remote/''/'double//slash'": ('returns', ('builtins.str', "'double//slash.index'")),
 "remote/''/5": ('returns', ('builtins.str', "'5.index'")),
 "remote/''/None": ('returns', ('builtins.str', "'None.index'")),
 "remote/''/PurePosixPath('pure/posix')": ('returns', ('builtins.str', "'pure/posix.index'")),
 "remote/'memory://cache'/'image1'": ('returns', ('builtins.str', "'image1.index'")),
 "remote/'memory://cache'/'IMG-HH-ALOS2225333200-180726-WWDR1.1__D-F1'": ('returns',
                                                                          ('builtins.str',
                                                                           "'IMG-HH-ALOS2225333200-180726-WWDR1.1__D-F1.index'")),
 "remote/'memory://cache'/'sub/image2'": ('returns', ('builtins.str', "'sub/image2.index'")),
 "remote/'memory://cache'/'a/b/c/image3'": ('returns', ('builtins.str', "'a/b/c/image3.index'")),
 "remote/'memory://cache'/'/leading/slash'": ('returns', ('builtins.str', "'/leading/slash.index'")),
 "remote/'memory://cache'/'trailing/'": ('returns', ('builtins.str', "'trailing/.index'")),
 "remote/'memory://cache'/''": ('returns', ('builtins.str', "'.index'")),
 "remote/'memory://cache'/'/'": ('returns', ('builtins.str', "'/.index'")),
 "remote/'memory://cache'/'with space/na me'": ('returns', ('builtins.str', "'with space/na me.index'")),
 "remote/'memory://cache'/'back\\\\slash'": ('returns', ('builtins.str', "'back\\\\slash.index'")),
 "remote/'memory://cache'/'dots/../x.y.index'": ('returns', ('builtins.str', "'dots/../x.y.index.index'")),
 "remote/'memory://cache'/'double//slash'": ('returns', ('builtins.str', "'double//slash.index'")),
 "remote/'memory://cache'/5": ('returns', ('builtins.str', "'5.index'")),
 "remote/'memory://cache'/None": ('returns', ('builtins.str', "'None.index'")),
 "remote/'memory://cache'/PurePosixPath('pure/posix')": ('returns', ('builtins.str', "'pure/posix.index'")),
 "remote/None/'image1'": ('returns', ('builtins.str', "'image1.index'")),
 "remote/None/'IMG-HH-ALOS2225333200-180726-WWDR1.1__D-F1'": ('returns',
                                                              ('builtins.str',
                                                               "'IMG-HH-ALOS2225333200-180726-WWDR1.1__D-F1.index'")),
 "remote/None/'sub/image2'": ('returns', ('builtins.str', "'sub/image2.index'")),
 "remote/None/'a/b/c/image3'": ('returns', ('builtins.str', "'a/b/c/image3.index'")),
 "remote/None/'/leading/slash'": ('returns', ('builtins.str', "'/leading/slash.index'")),
 "remote/None/'trailing/'": ('returns', ('builtins.str', "'trailing/.index'")),
 "remote/None/''": ('returns', ('builtins.str', "'.index'")),
 "remote/None/'/'": ('returns', ('builtins.str', "'/.index'")),
 "remote/None/'with space/na me'": ('returns', ('builtins.str', "'with space/na me.index'")),
 "remote/None/'back\\\\slash'": ('returns', ('builtins.str', "'back\\\\slash.index'")),
 "remote/None/'dots/../x.y.index'": ('returns', ('builtins.str', "'dots/../x.y.index.index'")),
 "remote/None/'double//slash'": ('returns', ('builtins.str', "'double//slash.index'")),
 'remote/None/5': ('returns', ('builtins.str', "'5.index'")),
 'remote/None/None': ('returns', ('builtins.str', "'None.index'")),
 "remote/None/PurePosixPath('pure/posix')": ('returns', ('builtins.str', "'pure/posix.index'")),
 'remote/kw': ('returns', ('builtins.str', "'x/y.index'")),
 'encode/group': ('returns',
                  ('builtins.str',
                   '\'{"__type__": "group", "url": "s3://bucket/data", "data": {"v": {"__type__": '
                   '"variable", "dims": ["rows", "columns"], "data": {"__type__": "backend_array", "root": '
                   '"/path/to", "url": "file", "shape": {"__type__": "tuple", "data": [4, 3]}, "dtype": '
                   '"int16", "byte_ranges": [{"__type__": "tuple", "data": [5, 10]}, {"__type__": "tuple", '
                   '"data": [15, 20]}, {"__type__": "tuple", "data": [25, 30]}, {"__type__": "tuple", '
                   '"data": [35, 40]}], "type_code": "IU2"}, "attrs": {"a": {"__type__": "tuple", "data": '
                   '[1, 2]}}}, "t": {"__type__": "variable", "dims": ["t"], "data": {"__type__": "array", '
                   '"dtype": "datetime64[s]", "data": [0, 86400], "encoding": {"reference": '
                   '"2020-01-01T00:00:00", "units": "s"}}, "attrs": {}}, "sub": {"__type__": "group", "url": '
                   '"s3://bucket/data", "data": {"w": {"__type__": "variable", "dims": ["x"], "data": '
                   '{"__type__": "array", "dtype": "float64", "data": [1.5, 2.5], "encoding": {}}, "attrs": '
                   '{}}}, "path": "/sub", "attrs": {"k": [1]}}}, "path": "/", "attrs": {"x": {"y": '
                   '{"__type__": "tuple", "data": [1, {"__type__": "tuple", "data": [2, 3]}]}}}}\'')),
 'encode/empty': ('returns',
                  ('builtins.str',
                   '\'{"__type__": "group", "url": "s3://bucket/data", "data": {}, "path": "/", "attrs": '
                   "{}}'")),
 'encode/variable': ('returns',
                     ('builtins.str',
                      '\'{"__type__": "variable", "dims": ["t"], "data": {"__type__": "array", "dtype": '
                      '"datetime64[s]", "data": [0, 86400], "encoding": {"reference": "2020-01-01T00:00:00", '
                      '"units": "s"}}, "attrs": {}}\'')),
 'encode/plain': ('returns',
                  ('builtins.str',
                   '\'{"a": {"__type__": "tuple", "data": [1, [2, {"__type__": "tuple", "data": [3]}]]}}\'')),
 'encode/none': ('returns', ('builtins.str', "'null'")),
 'encode/unserialisable': ('raises', 'builtins.TypeError', 'Object of type set is not JSON serializable'),
 'encode/bytes': ('raises', 'builtins.TypeError', 'Object of type bytes is not JSON serializable'),
 'decode/group/2': ('returns',
                    ('ceos_alos2.hierarchy.Group',
                     ('path', ('builtins.str', "'/'")),
                     ('url', ('builtins.str', "'s3://bucket/data'")),
                     ('attrs',
                      ('builtins.dict',
                       [(('builtins.str', "'x'"),
                         ('builtins.dict',
                          [(('builtins.str', "'y'"),
                            ('builtins.tuple',
                             [('builtins.int', '1'),
                              ('builtins.tuple', [('builtins.int', '2'), ('builtins.int', '3')])]))]))])),
                     ('data',
                      ('builtins.dict',
                       [(('builtins.str', "'v'"),
                         ('ceos_alos2.hierarchy.Variable',
                          ('dims',
                           ('builtins.list', [('builtins.str', "'rows'"), ('builtins.str', "'columns'")])),
                          ('attrs',
                           ('builtins.dict',
                            [(('builtins.str', "'a'"),
                              ('builtins.tuple', [('builtins.int', '1'), ('builtins.int', '2')]))])),
                          ('data',
                           ('ceos_alos2.array.Array',
                            ('fs', 'DirFileSystem', '/path/to', 'LocalFileSystem'),
                            ('url', ('builtins.str', "'file'")),
                            ('byte_ranges',
                             ('builtins.list',
                              [('builtins.tuple', [('builtins.int', '5'), ('builtins.int', '10')]),
                               ('builtins.tuple', [('builtins.int', '15'), ('builtins.int', '20')]),
                               ('builtins.tuple', [('builtins.int', '25'), ('builtins.int', '30')]),
                               ('builtins.tuple', [('builtins.int', '35'), ('builtins.int', '40')])])),
                            ('shape', ('builtins.tuple', [('builtins.int', '4'), ('builtins.int', '3')])),
                            ('dtype', ('builtins.str', "'int16'")),
                            ('type_code', ('builtins.str', "'IU2'")),
                            ('records_per_chunk', ('builtins.int', '2')),
                            ('chunk_offsets',
                             ('builtins.dict',
                              [(('builtins.int', '0'),
                                ('builtins.dict',
                                 [(('builtins.str', "'offset'"), ('builtins.int', '5')),
                                  (('builtins.str', "'size'"), ('builtins.int', '15'))])),
                               (('builtins.int', '1'),
                                ('builtins.dict',
                                 [(('builtins.str', "'offset'"), ('builtins.int', '25')),
                                  (('builtins.str', "'size'"), ('builtins.int', '15'))]))])))))),
                        (('builtins.str', "'t'"),
                         ('ceos_alos2.hierarchy.Variable',
                          ('dims', ('builtins.list', [('builtins.str', "'t'")])),
                          ('attrs', ('builtins.dict', [])),
                          ('data',
                           ('numpy.ndarray',
                            'datetime64[s]',
                            (2,),
                            '[datetime.datetime(2020, 1, 1, 0, 0), datetime.datetime(2020, 1, 2, 0, 0)]')))),
                        (('builtins.str', "'sub'"),
                         ('ceos_alos2.hierarchy.Group',
                          ('path', ('builtins.str', "'/sub'")),
                          ('url', ('builtins.str', "'s3://bucket/data'")),
                          ('attrs',
                           ('builtins.dict',
                            [(('builtins.str', "'k'"), ('builtins.list', [('builtins.int', '1')]))])),
                          ('data',
                           ('builtins.dict',
                            [(('builtins.str', "'w'"),
                              ('ceos_alos2.hierarchy.Variable',
                               ('dims', ('builtins.list', [('builtins.str', "'x'")])),
                               ('attrs', ('builtins.dict', [])),
                               ('data', ('numpy.ndarray', 'float64', (2,), '[1.5, 2.5]'))))]))))])))),
 'decode/group/positional/2': ('returns',
                               ('ceos_alos2.hierarchy.Group',
                                ('path', ('builtins.str', "'/'")),
                                ('url', ('builtins.str', "'s3://bucket/data'")),
                                ('attrs',
                                 ('builtins.dict',
                                  [(('builtins.str', "'x'"),
                                    ('builtins.dict',
                                     [(('builtins.str', "'y'"),
                                       ('builtins.tuple',
                                        [('builtins.int', '1'),
                                         ('builtins.tuple',
                                          [('builtins.int', '2'), ('builtins.int', '3')])]))]))])),
                                ('data',
                                 ('builtins.dict',
                                  [(('builtins.str', "'v'"),
                                    ('ceos_alos2.hierarchy.Variable',
                                     ('dims',
                                      ('builtins.list',
                                       [('builtins.str', "'rows'"), ('builtins.str', "'columns'")])),
                                     ('attrs',
                                      ('builtins.dict',
                                       [(('builtins.str', "'a'"),
                                         ('builtins.tuple',
                                          [('builtins.int', '1'), ('builtins.int', '2')]))])),
                                     ('data',
                                      ('ceos_alos2.array.Array',
                                       ('fs', 'DirFileSystem', '/path/to', 'LocalFileSystem'),
                                       ('url', ('builtins.str', "'file'")),
                                       ('byte_ranges',
                                        ('builtins.list',
                                         [('builtins.tuple', [('builtins.int', '5'), ('builtins.int', '10')]),
                                          ('builtins.tuple',
                                           [('builtins.int', '15'), ('builtins.int', '20')]),
                                          ('builtins.tuple',
                                           [('builtins.int', '25'), ('builtins.int', '30')]),
                                          ('builtins.tuple',
                                           [('builtins.int', '35'), ('builtins.int', '40')])])),
                                       ('shape',
                                        ('builtins.tuple', [('builtins.int', '4'), ('builtins.int', '3')])),
                                       ('dtype', ('builtins.str', "'int16'")),
                                       ('type_code', ('builtins.str', "'IU2'")),
                                       ('records_per_chunk', ('builtins.int', '2')),
                                       ('chunk_offsets',
                                        ('builtins.dict',
                                         [(('builtins.int', '0'),
                                           ('builtins.dict',
                                            [(('builtins.str', "'offset'"), ('builtins.int', '5')),
                                             (('builtins.str', "'size'"), ('builtins.int', '15'))])),
                                          (('builtins.int', '1'),
                                           ('builtins.dict',
                                            [(('builtins.str', "'offset'"), ('builtins.int', '25')),
                                             (('builtins.str', "'size'"), ('builtins.int', '15'))]))])))))),
                                   (('builtins.str', "'t'"),
                                    ('ceos_alos2.hierarchy.Variable',
                                     ('dims', ('builtins.list', [('builtins.str', "'t'")])),
                                     ('attrs', ('builtins.dict', [])),
                                     ('data',
                                      ('numpy.ndarray',
                                       'datetime64[s]',
                                       (2,),
                                       '[datetime.datetime(2020, 1, 1, 0, 0), datetime.datetime(2020, 1, 2, '
                                       '0, 0)]')))),
                                   (('builtins.str', "'sub'"),
                                    ('ceos_alos2.hierarchy.Group',
                                     ('path', ('builtins.str', "'/sub'")),
                                     ('url', ('builtins.str', "'s3://bucket/data'")),
                                     ('attrs',
                                      ('builtins.dict',
                                       [(('builtins.str', "'k'"),
                                         ('builtins.list', [('builtins.int', '1')]))])),
                                     ('data',
                                      ('builtins.dict',
                                       [(('builtins.str', "'w'"),
                                         ('ceos_alos2.hierarchy.Variable',
                                          ('dims', ('builtins.list', [('builtins.str', "'x'")])),
                                          ('attrs', ('builtins.dict', [])),
                                          ('data',
                                           ('numpy.ndarray', 'float64', (2,), '[1.5, 2.5]'))))]))))])))),
 'decode/group/None': ('returns',
                       ('ceos_alos2.hierarchy.Group',
                        ('path', ('builtins.str', "'/'")),
                        ('url', ('builtins.str', "'s3://bucket/data'")),
                        ('attrs',
                         ('builtins.dict',
                          [(('builtins.str', "'x'"),
                            ('builtins.dict',
                             [(('builtins.str', "'y'"),
                               ('builtins.tuple',
                                [('builtins.int', '1'),
                                 ('builtins.tuple', [('builtins.int', '2'), ('builtins.int', '3')])]))]))])),
                        ('data',
                         ('builtins.dict',
                          [(('builtins.str', "'v'"),
                            ('ceos_alos2.hierarchy.Variable',
                             ('dims',
                              ('builtins.list', [('builtins.str', "'rows'"), ('builtins.str', "'columns'")])),
                             ('attrs',
                              ('builtins.dict',
                               [(('builtins.str', "'a'"),
                                 ('builtins.tuple', [('builtins.int', '1'), ('builtins.int', '2')]))])),
                             ('data',
                              ('ceos_alos2.array.Array',
                               ('fs', 'DirFileSystem', '/path/to', 'LocalFileSystem'),
                               ('url', ('builtins.str', "'file'")),
                               ('byte_ranges',
                                ('builtins.list',
                                 [('builtins.tuple', [('builtins.int', '5'), ('builtins.int', '10')]),
                                  ('builtins.tuple', [('builtins.int', '15'), ('builtins.int', '20')]),
                                  ('builtins.tuple', [('builtins.int', '25'), ('builtins.int', '30')]),
                                  ('builtins.tuple', [('builtins.int', '35'), ('builtins.int', '40')])])),
                               ('shape', ('builtins.tuple', [('builtins.int', '4'), ('builtins.int', '3')])),
                               ('dtype', ('builtins.str', "'int16'")),
                               ('type_code', ('builtins.str', "'IU2'")),
                               ('records_per_chunk', ('builtins.int', '1024')),
                               ('chunk_offsets',
                                ('builtins.dict',
                                 [(('builtins.int', '0'),
                                   ('builtins.dict',
                                    [(('builtins.str', "'offset'"), ('builtins.int', '5')),
                                     (('builtins.str', "'size'"), ('builtins.int', '35'))]))])))))),
                           (('builtins.str', "'t'"),
                            ('ceos_alos2.hierarchy.Variable',
                             ('dims', ('builtins.list', [('builtins.str', "'t'")])),
                             ('attrs', ('builtins.dict', [])),
                             ('data',
                              ('numpy.ndarray',
                               'datetime64[s]',
                               (2,),
                               '[datetime.datetime(2020, 1, 1, 0, 0), datetime.datetime(2020, 1, 2, 0, '
                               '0)]')))),
                           (('builtins.str', "'sub'"),
                            ('ceos_alos2.hierarchy.Group',
                             ('path', ('builtins.str', "'/sub'")),
                             ('url', ('builtins.str', "'s3://bucket/data'")),
                             ('attrs',
                              ('builtins.dict',
                               [(('builtins.str', "'k'"), ('builtins.list', [('builtins.int', '1')]))])),
                             ('data',
                              ('builtins.dict',
                               [(('builtins.str', "'w'"),
                                 ('ceos_alos2.hierarchy.Variable',
                                  ('dims', ('builtins.list', [('builtins.str', "'x'")])),
                                  ('attrs', ('builtins.dict', [])),
                                  ('data', ('numpy.ndarray', 'float64', (2,), '[1.5, 2.5]'))))]))))])))),
 'decode/group/positional/None': ('returns',
                                  ('ceos_alos2.hierarchy.Group',
                                   ('path', ('builtins.str', "'/'")),
                                   ('url', ('builtins.str', "'s3://bucket/data'")),
                                   ('attrs',
                                    ('builtins.dict',
                                     [(('builtins.str', "'x'"),
                                       ('builtins.dict',
                                        [(('builtins.str', "'y'"),
                                          ('builtins.tuple',
                                           [('builtins.int', '1'),
                                            ('builtins.tuple',
                                             [('builtins.int', '2'), ('builtins.int', '3')])]))]))])),
                                   ('data',
                                    ('builtins.dict',
                                     [(('builtins.str', "'v'"),
                                       ('ceos_alos2.hierarchy.Variable',
                                        ('dims',
                                         ('builtins.list',
                                          [('builtins.str', "'rows'"), ('builtins.str', "'columns'")])),
                                        ('attrs',
                                         ('builtins.dict',
                                          [(('builtins.str', "'a'"),
                                            ('builtins.tuple',
                                             [('builtins.int', '1'), ('builtins.int', '2')]))])),
                                        ('data',
                                         ('ceos_alos2.array.Array',
                                          ('fs', 'DirFileSystem', '/path/to', 'LocalFileSystem'),
                                          ('url', ('builtins.str', "'file'")),
                                          ('byte_ranges',
                                           ('builtins.list',
                                            [('builtins.tuple',
                                              [('builtins.int', '5'), ('builtins.int', '10')]),
                                             ('builtins.tuple',
                                              [('builtins.int', '15'), ('builtins.int', '20')]),
                                             ('builtins.tuple',
                                              [('builtins.int', '25'), ('builtins.int', '30')]),
                                             ('builtins.tuple',
                                              [('builtins.int', '35'), ('builtins.int', '40')])])),
                                          ('shape',
                                           ('builtins.tuple',
                                            [('builtins.int', '4'), ('builtins.int', '3')])),
                                          ('dtype', ('builtins.str', "'int16'")),
                                          ('type_code', ('builtins.str', "'IU2'")),
                                          ('records_per_chunk', ('builtins.int', '1024')),
                                          ('chunk_offsets',
                                           ('builtins.dict',
                                            [(('builtins.int', '0'),
                                              ('builtins.dict',
                                               [(('builtins.str', "'offset'"), ('builtins.int', '5')),
                                                (('builtins.str', "'size'"),
                                                 ('builtins.int', '35'))]))])))))),
                                      (('builtins.str', "'t'"),
                                       ('ceos_alos2.hierarchy.Variable',
                                        ('dims', ('builtins.list', [('builtins.str', "'t'")])),
                                        ('attrs', ('builtins.dict', [])),
                                        ('data',
                                         ('numpy.ndarray',
                                          'datetime64[s]',
                                          (2,),
                                          '[datetime.datetime(2020, 1, 1, 0, 0), datetime.datetime(2020, 1, '
                                          '2, 0, 0)]')))),
                                      (('builtins.str', "'sub'"),
                                       ('ceos_alos2.hierarchy.Group',
                                        ('path', ('builtins.str', "'/sub'")),
                                        ('url', ('builtins.str', "'s3://bucket/data'")),
                                        ('attrs',
                                         ('builtins.dict',
                                          [(('builtins.str', "'k'"),
                                            ('builtins.list', [('builtins.int', '1')]))])),
                                        ('data',
                                         ('builtins.dict',
                                          [(('builtins.str', "'w'"),
                                            ('ceos_alos2.hierarchy.Variable',
                                             ('dims', ('builtins.list', [('builtins.str', "'x'")])),
                                             ('attrs', ('builtins.dict', [])),
                                             ('data',
                                              ('numpy.ndarray', 'float64', (2,), '[1.5, 2.5]'))))]))))])))),
 "decode/group/'auto'": ('returns',
                         ('ceos_alos2.hierarchy.Group',
                          ('path', ('builtins.str', "'/'")),
                          ('url', ('builtins.str', "'s3://bucket/data'")),
                          ('attrs',
                           ('builtins.dict',
                            [(('builtins.str', "'x'"),
                              ('builtins.dict',
                               [(('builtins.str', "'y'"),
                                 ('builtins.tuple',
                                  [('builtins.int', '1'),
                                   ('builtins.tuple',
                                    [('builtins.int', '2'), ('builtins.int', '3')])]))]))])),
                          ('data',
                           ('builtins.dict',
                            [(('builtins.str', "'v'"),
                              ('ceos_alos2.hierarchy.Variable',
                               ('dims',
                                ('builtins.list',
                                 [('builtins.str', "'rows'"), ('builtins.str', "'columns'")])),
                               ('attrs',
                                ('builtins.dict',
                                 [(('builtins.str', "'a'"),
                                   ('builtins.tuple', [('builtins.int', '1'), ('builtins.int', '2')]))])),
                               ('data',
                                ('ceos_alos2.array.Array',
                                 ('fs', 'DirFileSystem', '/path/to', 'LocalFileSystem'),
                                 ('url', ('builtins.str', "'file'")),
                                 ('byte_ranges',
                                  ('builtins.list',
                                   [('builtins.tuple', [('builtins.int', '5'), ('builtins.int', '10')]),
                                    ('builtins.tuple', [('builtins.int', '15'), ('builtins.int', '20')]),
                                    ('builtins.tuple', [('builtins.int', '25'), ('builtins.int', '30')]),
                                    ('builtins.tuple', [('builtins.int', '35'), ('builtins.int', '40')])])),
                                 ('shape',
                                  ('builtins.tuple', [('builtins.int', '4'), ('builtins.int', '3')])),
                                 ('dtype', ('builtins.str', "'int16'")),
                                 ('type_code', ('builtins.str', "'IU2'")),
                                 ('records_per_chunk', ('numpy.int64', 'np.int64(4)')),
                                 ('chunk_offsets',
                                  ('builtins.dict',
                                   [(('builtins.int', '0'),
                                     ('builtins.dict',
                                      [(('builtins.str', "'offset'"), ('builtins.int', '5')),
                                       (('builtins.str', "'size'"), ('builtins.int', '35'))]))])))))),
                             (('builtins.str', "'t'"),
                              ('ceos_alos2.hierarchy.Variable',
                               ('dims', ('builtins.list', [('builtins.str', "'t'")])),
                               ('attrs', ('builtins.dict', [])),
                               ('data',
                                ('numpy.ndarray',
                                 'datetime64[s]',
                                 (2,),
                                 '[datetime.datetime(2020, 1, 1, 0, 0), datetime.datetime(2020, 1, 2, 0, '
                                 '0)]')))),
                             (('builtins.str', "'sub'"),
                              ('ceos_alos2.hierarchy.Group',
                               ('path', ('builtins.str', "'/sub'")),
                               ('url', ('builtins.str', "'s3://bucket/data'")),
                               ('attrs',
                                ('builtins.dict',
                                 [(('builtins.str', "'k'"), ('builtins.list', [('builtins.int', '1')]))])),
                               ('data',
                                ('builtins.dict',
                                 [(('builtins.str', "'w'"),
                                   ('ceos_alos2.hierarchy.Variable',
                                    ('dims', ('builtins.list', [('builtins.str', "'x'")])),
                                    ('attrs', ('builtins.dict', [])),
                                    ('data', ('numpy.ndarray', 'float64', (2,), '[1.5, 2.5]'))))]))))])))),
 "decode/group/positional/'auto'": ('returns',
                                    ('ceos_alos2.hierarchy.Group',
                                     ('path', ('builtins.str', "'/'")),
                                     ('url', ('builtins.str', "'s3://bucket/data'")),
                                     ('attrs',
                                      ('builtins.dict',
                                       [(('builtins.str', "'x'"),
                                         ('builtins.dict',
                                          [(('builtins.str', "'y'"),
                                            ('builtins.tuple',
                                             [('builtins.int', '1'),
                                              ('builtins.tuple',
                                               [('builtins.int', '2'), ('builtins.int', '3')])]))]))])),
                                     ('data',
                                      ('builtins.dict',
                                       [(('builtins.str', "'v'"),
                                         ('ceos_alos2.hierarchy.Variable',
                                          ('dims',
                                           ('builtins.list',
                                            [('builtins.str', "'rows'"), ('builtins.str', "'columns'")])),
                                          ('attrs',
                                           ('builtins.dict',
                                            [(('builtins.str', "'a'"),
                                              ('builtins.tuple',
                                               [('builtins.int', '1'), ('builtins.int', '2')]))])),
                                          ('data',
                                           ('ceos_alos2.array.Array',
                                            ('fs', 'DirFileSystem', '/path/to', 'LocalFileSystem'),
                                            ('url', ('builtins.str', "'file'")),
                                            ('byte_ranges',
                                             ('builtins.list',
                                              [('builtins.tuple',
                                                [('builtins.int', '5'), ('builtins.int', '10')]),
                                               ('builtins.tuple',
                                                [('builtins.int', '15'), ('builtins.int', '20')]),
                                               ('builtins.tuple',
                                                [('builtins.int', '25'), ('builtins.int', '30')]),
                                               ('builtins.tuple',
                                                [('builtins.int', '35'), ('builtins.int', '40')])])),
                                            ('shape',
                                             ('builtins.tuple',
                                              [('builtins.int', '4'), ('builtins.int', '3')])),
                                            ('dtype', ('builtins.str', "'int16'")),
                                            ('type_code', ('builtins.str', "'IU2'")),
                                            ('records_per_chunk', ('numpy.int64', 'np.int64(4)')),
                                            ('chunk_offsets',
                                             ('builtins.dict',
                                              [(('builtins.int', '0'),
                                                ('builtins.dict',
                                                 [(('builtins.str', "'offset'"), ('builtins.int', '5')),
                                                  (('builtins.str', "'size'"),
                                                   ('builtins.int', '35'))]))])))))),
                                        (('builtins.str', "'t'"),
                                         ('ceos_alos2.hierarchy.Variable',
                                          ('dims', ('builtins.list', [('builtins.str', "'t'")])),
                                          ('attrs', ('builtins.dict', [])),
                                          ('data',
                                           ('numpy.ndarray',
                                            'datetime64[s]',
                                            (2,),
                                            '[datetime.datetime(2020, 1, 1, 0, 0), datetime.datetime(2020, '
                                            '1, 2, 0, 0)]')))),
                                        (('builtins.str', "'sub'"),
                                         ('ceos_alos2.hierarchy.Group',
                                          ('path', ('builtins.str', "'/sub'")),
                                          ('url', ('builtins.str', "'s3://bucket/data'")),
                                          ('attrs',
                                           ('builtins.dict',
                                            [(('builtins.str', "'k'"),
                                              ('builtins.list', [('builtins.int', '1')]))])),
                                          ('data',
                                           ('builtins.dict',
                                            [(('builtins.str', "'w'"),
                                              ('ceos_alos2.hierarchy.Variable',
                                               ('dims', ('builtins.list', [('builtins.str', "'x'")])),
                                               ('attrs', ('builtins.dict', [])),
                                               ('data',
                                                ('numpy.ndarray', 'float64', (2,), '[1.5, 2.5]'))))]))))])))),
 'decode/group/-1': ('returns',
                     ('ceos_alos2.hierarchy.Group',
                      ('path', ('builtins.str', "'/'")),
                      ('url', ('builtins.str', "'s3://bucket/data'")),
                      ('attrs',
                       ('builtins.dict',
                        [(('builtins.str', "'x'"),
                          ('builtins.dict',
                           [(('builtins.str', "'y'"),
                             ('builtins.tuple',
                              [('builtins.int', '1'),
                               ('builtins.tuple', [('builtins.int', '2'), ('builtins.int', '3')])]))]))])),
                      ('data',
                       ('builtins.dict',
                        [(('builtins.str', "'v'"),
                          ('ceos_alos2.hierarchy.Variable',
                           ('dims',
                            ('builtins.list', [('builtins.str', "'rows'"), ('builtins.str', "'columns'")])),
                           ('attrs',
                            ('builtins.dict',
                             [(('builtins.str', "'a'"),
                               ('builtins.tuple', [('builtins.int', '1'), ('builtins.int', '2')]))])),
                           ('data',
                            ('ceos_alos2.array.Array',
                             ('fs', 'DirFileSystem', '/path/to', 'LocalFileSystem'),
                             ('url', ('builtins.str', "'file'")),
                             ('byte_ranges',
                              ('builtins.list',
                               [('builtins.tuple', [('builtins.int', '5'), ('builtins.int', '10')]),
                                ('builtins.tuple', [('builtins.int', '15'), ('builtins.int', '20')]),
                                ('builtins.tuple', [('builtins.int', '25'), ('builtins.int', '30')]),
                                ('builtins.tuple', [('builtins.int', '35'), ('builtins.int', '40')])])),
                             ('shape', ('builtins.tuple', [('builtins.int', '4'), ('builtins.int', '3')])),
                             ('dtype', ('builtins.str', "'int16'")),
                             ('type_code', ('builtins.str', "'IU2'")),
                             ('records_per_chunk', ('builtins.int', '4')),
                             ('chunk_offsets',
                              ('builtins.dict',
                               [(('builtins.int', '0'),
                                 ('builtins.dict',
                                  [(('builtins.str', "'offset'"), ('builtins.int', '5')),
                                   (('builtins.str', "'size'"), ('builtins.int', '35'))]))])))))),
                         (('builtins.str', "'t'"),
                          ('ceos_alos2.hierarchy.Variable',
                           ('dims', ('builtins.list', [('builtins.str', "'t'")])),
                           ('attrs', ('builtins.dict', [])),
                           ('data',
                            ('numpy.ndarray',
                             'datetime64[s]',
                             (2,),
                             '[datetime.datetime(2020, 1, 1, 0, 0), datetime.datetime(2020, 1, 2, 0, 0)]')))),
                         (('builtins.str', "'sub'"),
                          ('ceos_alos2.hierarchy.Group',
                           ('path', ('builtins.str', "'/sub'")),
                           ('url', ('builtins.str', "'s3://bucket/data'")),
                           ('attrs',
                            ('builtins.dict',
                             [(('builtins.str', "'k'"), ('builtins.list', [('builtins.int', '1')]))])),
                           ('data',
                            ('builtins.dict',
                             [(('builtins.str', "'w'"),
                               ('ceos_alos2.hierarchy.Variable',
                                ('dims', ('builtins.list', [('builtins.str', "'x'")])),
                                ('attrs', ('builtins.dict', [])),
                                ('data', ('numpy.ndarray', 'float64', (2,), '[1.5, 2.5]'))))]))))])))),
 'decode/group/positional/-1': ('returns',
                                ('ceos_alos2.hierarchy.Group',
                                 ('path', ('builtins.str', "'/'")),
                                 ('url', ('builtins.str', "'s3://bucket/data'")),
                                 ('attrs',
                                  ('builtins.dict',
                                   [(('builtins.str', "'x'"),
                                     ('builtins.dict',
                                      [(('builtins.str', "'y'"),
                                        ('builtins.tuple',
                                         [('builtins.int', '1'),
                                          ('builtins.tuple',
                                           [('builtins.int', '2'), ('builtins.int', '3')])]))]))])),
                                 ('data',
                                  ('builtins.dict',
                                   [(('builtins.str', "'v'"),
                                     ('ceos_alos2.hierarchy.Variable',
                                      ('dims',
                                       ('builtins.list',
                                        [('builtins.str', "'rows'"), ('builtins.str', "'columns'")])),
                                      ('attrs',
                                       ('builtins.dict',
                                        [(('builtins.str', "'a'"),
                                          ('builtins.tuple',
                                           [('builtins.int', '1'), ('builtins.int', '2')]))])),
                                      ('data',
                                       ('ceos_alos2.array.Array',
                                        ('fs', 'DirFileSystem', '/path/to', 'LocalFileSystem'),
                                        ('url', ('builtins.str', "'file'")),
                                        ('byte_ranges',
                                         ('builtins.list',
                                          [('builtins.tuple',
                                            [('builtins.int', '5'), ('builtins.int', '10')]),
                                           ('builtins.tuple',
                                            [('builtins.int', '15'), ('builtins.int', '20')]),
                                           ('builtins.tuple',
                                            [('builtins.int', '25'), ('builtins.int', '30')]),
                                           ('builtins.tuple',
                                            [('builtins.int', '35'), ('builtins.int', '40')])])),
                                        ('shape',
                                         ('builtins.tuple', [('builtins.int', '4'), ('builtins.int', '3')])),
                                        ('dtype', ('builtins.str', "'int16'")),
                                        ('type_code', ('builtins.str', "'IU2'")),
                                        ('records_per_chunk', ('builtins.int', '4')),
                                        ('chunk_offsets',
                                         ('builtins.dict',
                                          [(('builtins.int', '0'),
                                            ('builtins.dict',
                                             [(('builtins.str', "'offset'"), ('builtins.int', '5')),
                                              (('builtins.str', "'size'"), ('builtins.int', '35'))]))])))))),
                                    (('builtins.str', "'t'"),
                                     ('ceos_alos2.hierarchy.Variable',
                                      ('dims', ('builtins.list', [('builtins.str', "'t'")])),
                                      ('attrs', ('builtins.dict', [])),
                                      ('data',
                                       ('numpy.ndarray',
                                        'datetime64[s]',
                                        (2,),
                                        '[datetime.datetime(2020, 1, 1, 0, 0), datetime.datetime(2020, 1, 2, '
                                        '0, 0)]')))),
                                    (('builtins.str', "'sub'"),
                                     ('ceos_alos2.hierarchy.Group',
                                      ('path', ('builtins.str', "'/sub'")),
                                      ('url', ('builtins.str', "'s3://bucket/data'")),
                                      ('attrs',
                                       ('builtins.dict',
                                        [(('builtins.str', "'k'"),
                                          ('builtins.list', [('builtins.int', '1')]))])),
                                      ('data',
                                       ('builtins.dict',
                                        [(('builtins.str', "'w'"),
                                          ('ceos_alos2.hierarchy.Variable',
                                           ('dims', ('builtins.list', [('builtins.str', "'x'")])),
                                           ('attrs', ('builtins.dict', [])),
                                           ('data',
                                            ('numpy.ndarray', 'float64', (2,), '[1.5, 2.5]'))))]))))])))),
 'decode/empty_group': ('returns',
                        ('ceos_alos2.hierarchy.Group',
                         ('path', ('builtins.str', "'/'")),
                         ('url', ('builtins.str', "'s3://bucket/data'")),
                         ('attrs', ('builtins.dict', [])),
                         ('data', ('builtins.dict', [])))),
 'decode/tuple': ('raises', 'builtins.AttributeError', "'tuple' object has no attribute 'get'"),
 'decode/plain': ('returns',
                  ('builtins.dict',
                   [(('builtins.str', "'a'"),
                     ('builtins.list', [('builtins.int', '1'), ('builtins.int', '2')]))])),
 'decode/empty_text': ('raises',
                       'ceos_alos2.sar_image.caching.CachingError',
                       'invalid or incomplete cache file'),
 'decode/truncated': ('raises',
                      'ceos_alos2.sar_image.caching.CachingError',
                      'invalid or incomplete cache file'),
 'decode/garbage': ('raises',
                    'ceos_alos2.sar_image.caching.CachingError',
                    'invalid or incomplete cache file'),
 'decode/trailing': ('raises',
                     'ceos_alos2.sar_image.caching.CachingError',
                     'invalid or incomplete cache file'),
 'decode/nan': ('returns', ('builtins.dict', [(('builtins.str', "'a'"), ('builtins.float', 'nan'))])),
 'decode/list': ('raises', 'builtins.AttributeError', "'list' object has no attribute 'get'"),
 'decode/number': ('raises', 'builtins.AttributeError', "'int' object has no attribute 'get'"),
 'decode/bytes': ('returns',
                  ('ceos_alos2.hierarchy.Group',
                   ('path', ('builtins.str', "'/'")),
                   ('url', ('builtins.str', "'s3://bucket/data'")),
                   ('attrs',
                    ('builtins.dict',
                     [(('builtins.str', "'x'"),
                       ('builtins.dict',
                        [(('builtins.str', "'y'"),
                          ('builtins.tuple',
                           [('builtins.int', '1'),
                            ('builtins.tuple', [('builtins.int', '2'), ('builtins.int', '3')])]))]))])),
                   ('data',
                    ('builtins.dict',
                     [(('builtins.str', "'v'"),
                       ('ceos_alos2.hierarchy.Variable',
                        ('dims',
                         ('builtins.list', [('builtins.str', "'rows'"), ('builtins.str', "'columns'")])),
                        ('attrs',
                         ('builtins.dict',
                          [(('builtins.str', "'a'"),
                            ('builtins.tuple', [('builtins.int', '1'), ('builtins.int', '2')]))])),
                        ('data',
                         ('ceos_alos2.array.Array',
                          ('fs', 'DirFileSystem', '/path/to', 'LocalFileSystem'),
                          ('url', ('builtins.str', "'file'")),
                          ('byte_ranges',
                           ('builtins.list',
                            [('builtins.tuple', [('builtins.int', '5'), ('builtins.int', '10')]),
                             ('builtins.tuple', [('builtins.int', '15'), ('builtins.int', '20')]),
                             ('builtins.tuple', [('builtins.int', '25'), ('builtins.int', '30')]),
                             ('builtins.tuple', [('builtins.int', '35'), ('builtins.int', '40')])])),
                          ('shape', ('builtins.tuple', [('builtins.int', '4'), ('builtins.int', '3')])),
                          ('dtype', ('builtins.str', "'int16'")),
                          ('type_code', ('builtins.str', "'IU2'")),
                          ('records_per_chunk', ('builtins.int', '2')),
                          ('chunk_offsets',
                           ('builtins.dict',
                            [(('builtins.int', '0'),
                              ('builtins.dict',
                               [(('builtins.str', "'offset'"), ('builtins.int', '5')),
                                (('builtins.str', "'size'"), ('builtins.int', '15'))])),
                             (('builtins.int', '1'),
                              ('builtins.dict',
                               [(('builtins.str', "'offset'"), ('builtins.int', '25')),
                                (('builtins.str', "'size'"), ('builtins.int', '15'))]))])))))),
                      (('builtins.str', "'t'"),
                       ('ceos_alos2.hierarchy.Variable',
                        ('dims', ('builtins.list', [('builtins.str', "'t'")])),
                        ('attrs', ('builtins.dict', [])),
                        ('data',
                         ('numpy.ndarray',
                          'datetime64[s]',
                          (2,),
                          '[datetime.datetime(2020, 1, 1, 0, 0), datetime.datetime(2020, 1, 2, 0, 0)]')))),
                      (('builtins.str', "'sub'"),
                       ('ceos_alos2.hierarchy.Group',
                        ('path', ('builtins.str', "'/sub'")),
                        ('url', ('builtins.str', "'s3://bucket/data'")),
                        ('attrs',
                         ('builtins.dict',
                          [(('builtins.str', "'k'"), ('builtins.list', [('builtins.int', '1')]))])),
                        ('data',
                         ('builtins.dict',
                          [(('builtins.str', "'w'"),
                            ('ceos_alos2.hierarchy.Variable',
                             ('dims', ('builtins.list', [('builtins.str', "'x'")])),
                             ('attrs', ('builtins.dict', [])),
                             ('data', ('numpy.ndarray', 'float64', (2,), '[1.5, 2.5]'))))]))))])))),
 'decode/invalid_bytes': ('raises',
                          'ceos_alos2.sar_image.caching.CachingError',
                          'invalid or incomplete cache file'),
 'decode/none': ('raises',
                 'builtins.TypeError',
                 'the JSON object must be str, bytes or bytearray, not NoneType'),
 'decode/tuple_without_data': ('raises', 'builtins.KeyError', "'data'"),
 'decode/group_missing_keys': ('raises', 'builtins.KeyError', "'path'"),
 'decode/cause': ('JSONDecodeError',
                  'Expecting property name enclosed in double quotes: line 1 column 2 (char 1)',
                  ('invalid or incomplete cache file',),
                  True),
 "read_cache/'image'/none/2": (('raises',
                                'ceos_alos2.sar_image.caching.CachingError',
                                'no cache found for image'),
                               "[('mapper.root',), ('mapper.root',), ('Path.is_file', "
                               "'4f7cfeeaf747854a0a17f4fa6b2181e08de541609edf2ad148ca93567cf73d6a/image.index'), "
                               "('mapper.__contains__', 'image.index')]"),
 "read_cache/'image'/none/None": (('raises',
                                   'ceos_alos2.sar_image.caching.CachingError',
                                   'no cache found for image'),
                                  "[('mapper.root',), ('mapper.root',), ('Path.is_file', "
                                  "'4f7cfeeaf747854a0a17f4fa6b2181e08de541609edf2ad148ca93567cf73d6a/image.index'), "
                                  "('mapper.__contains__', 'image.index')]"),
 "read_cache/'image'/none/positional": (('raises',
                                         'ceos_alos2.sar_image.caching.CachingError',
                                         'no cache found for image'),
                                        "[('mapper.root',), ('mapper.root',), ('Path.is_file', "
                                        "'4f7cfeeaf747854a0a17f4fa6b2181e08de541609edf2ad148ca93567cf73d6a/image.index'), "
                                        "('mapper.__contains__', 'image.index')]"),
 "read_cache/'image'/local_only/2": (('returns',
                                      ('ceos_alos2.hierarchy.Group',
                                       ('path', ('builtins.str', "'/'")),
                                       ('url', ('builtins.str', "'s3://bucket/data'")),
                                       ('attrs',
                                        ('builtins.dict',
                                         [(('builtins.str', "'x'"),
                                           ('builtins.dict',
                                            [(('builtins.str', "'y'"),
                                              ('builtins.tuple',
                                               [('builtins.int', '1'),
                                                ('builtins.tuple',
                                                 [('builtins.int', '2'), ('builtins.int', '3')])]))]))])),
                                       ('data',
                                        ('builtins.dict',
                                         [(('builtins.str', "'v'"),
                                           ('ceos_alos2.hierarchy.Variable',
                                            ('dims',
                                             ('builtins.list',
                                              [('builtins.str', "'rows'"), ('builtins.str', "'columns'")])),
                                            ('attrs',
                                             ('builtins.dict',
                                              [(('builtins.str', "'a'"),
                                                ('builtins.tuple',
                                                 [('builtins.int', '1'), ('builtins.int', '2')]))])),
                                            ('data',
                                             ('ceos_alos2.array.Array',
                                              ('fs', 'DirFileSystem', '/path/to', 'LocalFileSystem'),
                                              ('url', ('builtins.str', "'file'")),
                                              ('byte_ranges',
                                               ('builtins.list',
                                                [('builtins.tuple',
                                                  [('builtins.int', '5'), ('builtins.int', '10')]),
                                                 ('builtins.tuple',
                                                  [('builtins.int', '15'), ('builtins.int', '20')]),
                                                 ('builtins.tuple',
                                                  [('builtins.int', '25'), ('builtins.int', '30')]),
                                                 ('builtins.tuple',
                                                  [('builtins.int', '35'), ('builtins.int', '40')])])),
                                              ('shape',
                                               ('builtins.tuple',
                                                [('builtins.int', '4'), ('builtins.int', '3')])),
                                              ('dtype', ('builtins.str', "'int16'")),
                                              ('type_code', ('builtins.str', "'IU2'")),
                                              ('records_per_chunk', ('builtins.int', '2')),
                                              ('chunk_offsets',
                                               ('builtins.dict',
                                                [(('builtins.int', '0'),
                                                  ('builtins.dict',
                                                   [(('builtins.str', "'offset'"), ('builtins.int', '5')),
                                                    (('builtins.str', "'size'"), ('builtins.int', '15'))])),
                                                 (('builtins.int', '1'),
                                                  ('builtins.dict',
                                                   [(('builtins.str', "'offset'"), ('builtins.int', '25')),
                                                    (('builtins.str', "'size'"),
                                                     ('builtins.int', '15'))]))])))))),
                                          (('builtins.str', "'t'"),
                                           ('ceos_alos2.hierarchy.Variable',
                                            ('dims', ('builtins.list', [('builtins.str', "'t'")])),
                                            ('attrs', ('builtins.dict', [])),
                                            ('data',
                                             ('numpy.ndarray',
                                              'datetime64[s]',
                                              (2,),
                                              '[datetime.datetime(2020, 1, 1, 0, 0), datetime.datetime(2020, '
                                              '1, 2, 0, 0)]')))),
                                          (('builtins.str', "'sub'"),
                                           ('ceos_alos2.hierarchy.Group',
                                            ('path', ('builtins.str', "'/sub'")),
                                            ('url', ('builtins.str', "'s3://bucket/data'")),
                                            ('attrs',
                                             ('builtins.dict',
                                              [(('builtins.str', "'k'"),
                                                ('builtins.list', [('builtins.int', '1')]))])),
                                            ('data',
                                             ('builtins.dict',
                                              [(('builtins.str', "'w'"),
                                                ('ceos_alos2.hierarchy.Variable',
                                                 ('dims', ('builtins.list', [('builtins.str', "'x'")])),
                                                 ('attrs', ('builtins.dict', [])),
                                                 ('data',
                                                  ('numpy.ndarray',
                                                   'float64',
                                                   (2,),
                                                   '[1.5, 2.5]'))))]))))])))),
                                     "[('mapper.root',), ('mapper.root',), ('Path.is_file', "
                                     "'4f7cfeeaf747854a0a17f4fa6b2181e08de541609edf2ad148ca93567cf73d6a/image.index'), "
                                     "('Path.read_text', "
                                     "'4f7cfeeaf747854a0a17f4fa6b2181e08de541609edf2ad148ca93567cf73d6a/image.index', "
                                     '(), {})]'),
 "read_cache/'image'/local_only/None": (('returns',
                                         ('ceos_alos2.hierarchy.Group',
                                          ('path', ('builtins.str', "'/'")),
                                          ('url', ('builtins.str', "'s3://bucket/data'")),
                                          ('attrs',
                                           ('builtins.dict',
                                            [(('builtins.str', "'x'"),
                                              ('builtins.dict',
                                               [(('builtins.str', "'y'"),
                                                 ('builtins.tuple',
                                                  [('builtins.int', '1'),
                                                   ('builtins.tuple',
                                                    [('builtins.int', '2'), ('builtins.int', '3')])]))]))])),
                                          ('data',
                                           ('builtins.dict',
                                            [(('builtins.str', "'v'"),
                                              ('ceos_alos2.hierarchy.Variable',
                                               ('dims',
                                                ('builtins.list',
                                                 [('builtins.str', "'rows'"),
                                                  ('builtins.str', "'columns'")])),
                                               ('attrs',
                                                ('builtins.dict',
                                                 [(('builtins.str', "'a'"),
                                                   ('builtins.tuple',
                                                    [('builtins.int', '1'), ('builtins.int', '2')]))])),
                                               ('data',
                                                ('ceos_alos2.array.Array',
                                                 ('fs', 'DirFileSystem', '/path/to', 'LocalFileSystem'),
                                                 ('url', ('builtins.str', "'file'")),
                                                 ('byte_ranges',
                                                  ('builtins.list',
                                                   [('builtins.tuple',
                                                     [('builtins.int', '5'), ('builtins.int', '10')]),
                                                    ('builtins.tuple',
                                                     [('builtins.int', '15'), ('builtins.int', '20')]),
                                                    ('builtins.tuple',
                                                     [('builtins.int', '25'), ('builtins.int', '30')]),
                                                    ('builtins.tuple',
                                                     [('builtins.int', '35'), ('builtins.int', '40')])])),
                                                 ('shape',
                                                  ('builtins.tuple',
                                                   [('builtins.int', '4'), ('builtins.int', '3')])),
                                                 ('dtype', ('builtins.str', "'int16'")),
                                                 ('type_code', ('builtins.str', "'IU2'")),
                                                 ('records_per_chunk', ('builtins.int', '1024')),
                                                 ('chunk_offsets',
                                                  ('builtins.dict',
                                                   [(('builtins.int', '0'),
                                                     ('builtins.dict',
                                                      [(('builtins.str', "'offset'"), ('builtins.int', '5')),
                                                       (('builtins.str', "'size'"),
                                                        ('builtins.int', '35'))]))])))))),
                                             (('builtins.str', "'t'"),
                                              ('ceos_alos2.hierarchy.Variable',
                                               ('dims', ('builtins.list', [('builtins.str', "'t'")])),
                                               ('attrs', ('builtins.dict', [])),
                                               ('data',
                                                ('numpy.ndarray',
                                                 'datetime64[s]',
                                                 (2,),
                                                 '[datetime.datetime(2020, 1, 1, 0, 0), '
                                                 'datetime.datetime(2020, 1, 2, 0, 0)]')))),
                                             (('builtins.str', "'sub'"),
                                              ('ceos_alos2.hierarchy.Group',
                                               ('path', ('builtins.str', "'/sub'")),
                                               ('url', ('builtins.str', "'s3://bucket/data'")),
                                               ('attrs',
                                                ('builtins.dict',
                                                 [(('builtins.str', "'k'"),
                                                   ('builtins.list', [('builtins.int', '1')]))])),
                                               ('data',
                                                ('builtins.dict',
                                                 [(('builtins.str', "'w'"),
                                                   ('ceos_alos2.hierarchy.Variable',
                                                    ('dims', ('builtins.list', [('builtins.str', "'x'")])),
                                                    ('attrs', ('builtins.dict', [])),
                                                    ('data',
                                                     ('numpy.ndarray',
                                                      'float64',
                                                      (2,),
                                                      '[1.5, 2.5]'))))]))))])))),
                                        "[('mapper.root',), ('mapper.root',), ('Path.is_file', "
                                        "'4f7cfeeaf747854a0a17f4fa6b2181e08de541609edf2ad148ca93567cf73d6a/image.index'), "
                                        "('Path.read_text', "
                                        "'4f7cfeeaf747854a0a17f4fa6b2181e08de541609edf2ad148ca93567cf73d6a/image.index', "
                                        '(), {})]'),
 "read_cache/'image'/local_only/positional": (('returns',
                                               ('ceos_alos2.hierarchy.Group',
                                                ('path', ('builtins.str', "'/'")),
                                                ('url', ('builtins.str', "'s3://bucket/data'")),
                                                ('attrs',
                                                 ('builtins.dict',
                                                  [(('builtins.str', "'x'"),
                                                    ('builtins.dict',
                                                     [(('builtins.str', "'y'"),
                                                       ('builtins.tuple',
                                                        [('builtins.int', '1'),
                                                         ('builtins.tuple',
                                                          [('builtins.int', '2'),
                                                           ('builtins.int', '3')])]))]))])),
                                                ('data',
                                                 ('builtins.dict',
                                                  [(('builtins.str', "'v'"),
                                                    ('ceos_alos2.hierarchy.Variable',
                                                     ('dims',
                                                      ('builtins.list',
                                                       [('builtins.str', "'rows'"),
                                                        ('builtins.str', "'columns'")])),
                                                     ('attrs',
                                                      ('builtins.dict',
                                                       [(('builtins.str', "'a'"),
                                                         ('builtins.tuple',
                                                          [('builtins.int', '1'), ('builtins.int', '2')]))])),
                                                     ('data',
                                                      ('ceos_alos2.array.Array',
                                                       ('fs', 'DirFileSystem', '/path/to', 'LocalFileSystem'),
                                                       ('url', ('builtins.str', "'file'")),
                                                       ('byte_ranges',
                                                        ('builtins.list',
                                                         [('builtins.tuple',
                                                           [('builtins.int', '5'), ('builtins.int', '10')]),
                                                          ('builtins.tuple',
                                                           [('builtins.int', '15'), ('builtins.int', '20')]),
                                                          ('builtins.tuple',
                                                           [('builtins.int', '25'), ('builtins.int', '30')]),
                                                          ('builtins.tuple',
                                                           [('builtins.int', '35'),
                                                            ('builtins.int', '40')])])),
                                                       ('shape',
                                                        ('builtins.tuple',
                                                         [('builtins.int', '4'), ('builtins.int', '3')])),
                                                       ('dtype', ('builtins.str', "'int16'")),
                                                       ('type_code', ('builtins.str', "'IU2'")),
                                                       ('records_per_chunk', ('builtins.int', '3')),
                                                       ('chunk_offsets',
                                                        ('builtins.dict',
                                                         [(('builtins.int', '0'),
                                                           ('builtins.dict',
                                                            [(('builtins.str', "'offset'"),
                                                              ('builtins.int', '5')),
                                                             (('builtins.str', "'size'"),
                                                              ('builtins.int', '25'))])),
                                                          (('builtins.int', '1'),
                                                           ('builtins.dict',
                                                            [(('builtins.str', "'offset'"),
                                                              ('builtins.int', '35')),
                                                             (('builtins.str', "'size'"),
                                                              ('builtins.int', '5'))]))])))))),
                                                   (('builtins.str', "'t'"),
                                                    ('ceos_alos2.hierarchy.Variable',
                                                     ('dims', ('builtins.list', [('builtins.str', "'t'")])),
                                                     ('attrs', ('builtins.dict', [])),
                                                     ('data',
                                                      ('numpy.ndarray',
                                                       'datetime64[s]',
                                                       (2,),
                                                       '[datetime.datetime(2020, 1, 1, 0, 0), '
                                                       'datetime.datetime(2020, 1, 2, 0, 0)]')))),
                                                   (('builtins.str', "'sub'"),
                                                    ('ceos_alos2.hierarchy.Group',
                                                     ('path', ('builtins.str', "'/sub'")),
                                                     ('url', ('builtins.str', "'s3://bucket/data'")),
                                                     ('attrs',
                                                      ('builtins.dict',
                                                       [(('builtins.str', "'k'"),
                                                         ('builtins.list', [('builtins.int', '1')]))])),
                                                     ('data',
                                                      ('builtins.dict',
                                                       [(('builtins.str', "'w'"),
                                                         ('ceos_alos2.hierarchy.Variable',
                                                          ('dims',
                                                           ('builtins.list', [('builtins.str', "'x'")])),
                                                          ('attrs', ('builtins.dict', [])),
                                                          ('data',
                                                           ('numpy.ndarray',
                                                            'float64',
                                                            (2,),
                                                            '[1.5, 2.5]'))))]))))])))),
                                              "[('mapper.root',), ('mapper.root',), ('Path.is_file', "
                                              "'4f7cfeeaf747854a0a17f4fa6b2181e08de541609edf2ad148ca93567cf73d6a/image.index'), "
                                              "('Path.read_text', "
                                              "'4f7cfeeaf747854a0a17f4fa6b2181e08de541609edf2ad148ca93567cf73d6a/image.index', "
                                              '(), {})]'),
 "read_cache/'image'/remote_only/2": (('returns',
                                       ('ceos_alos2.hierarchy.Group',
                                        ('path', ('builtins.str', "'/'")),
                                        ('url', ('builtins.str', "'s3://bucket/data'")),
                                        ('attrs', ('builtins.dict', [])),
                                        ('data', ('builtins.dict', [])))),
                                      "[('mapper.root',), ('mapper.root',), ('Path.is_file', "
                                      "'4f7cfeeaf747854a0a17f4fa6b2181e08de541609edf2ad148ca93567cf73d6a/image.index'), "
                                      "('mapper.__contains__', 'image.index'), ('mapper.__getitem__', "
                                      "'image.index')]"),
 "read_cache/'image'/remote_only/None": (('returns',
                                          ('ceos_alos2.hierarchy.Group',
                                           ('path', ('builtins.str', "'/'")),
                                           ('url', ('builtins.str', "'s3://bucket/data'")),
                                           ('attrs', ('builtins.dict', [])),
                                           ('data', ('builtins.dict', [])))),
                                         "[('mapper.root',), ('mapper.root',), ('Path.is_file', "
                                         "'4f7cfeeaf747854a0a17f4fa6b2181e08de541609edf2ad148ca93567cf73d6a/image.index'), "
                                         "('mapper.__contains__', 'image.index'), ('mapper.__getitem__', "
                                         "'image.index')]"),
 "read_cache/'image'/remote_only/positional": (('returns',
                                                ('ceos_alos2.hierarchy.Group',
                                                 ('path', ('builtins.str', "'/'")),
                                                 ('url', ('builtins.str', "'s3://bucket/data'")),
                                                 ('attrs', ('builtins.dict', [])),
                                                 ('data', ('builtins.dict', [])))),
                                               "[('mapper.root',), ('mapper.root',), ('Path.is_file', "
                                               "'4f7cfeeaf747854a0a17f4fa6b2181e08de541609edf2ad148ca93567cf73d6a/image.index'), "
                                               "('mapper.__contains__', 'image.index'), "
                                               "('mapper.__getitem__', 'image.index')]"),
 "read_cache/'image'/both/2": (('returns',
                                ('ceos_alos2.hierarchy.Group',
                                 ('path', ('builtins.str', "'/'")),
                                 ('url', ('builtins.str', "'s3://bucket/data'")),
                                 ('attrs',
                                  ('builtins.dict',
                                   [(('builtins.str', "'x'"),
                                     ('builtins.dict',
                                      [(('builtins.str', "'y'"),
                                        ('builtins.tuple',
                                         [('builtins.int', '1'),
                                          ('builtins.tuple',
                                           [('builtins.int', '2'), ('builtins.int', '3')])]))]))])),
                                 ('data',
                                  ('builtins.dict',
                                   [(('builtins.str', "'v'"),
                                     ('ceos_alos2.hierarchy.Variable',
                                      ('dims',
                                       ('builtins.list',
                                        [('builtins.str', "'rows'"), ('builtins.str', "'columns'")])),
                                      ('attrs',
                                       ('builtins.dict',
                                        [(('builtins.str', "'a'"),
                                          ('builtins.tuple',
                                           [('builtins.int', '1'), ('builtins.int', '2')]))])),
                                      ('data',
                                       ('ceos_alos2.array.Array',
                                        ('fs', 'DirFileSystem', '/path/to', 'LocalFileSystem'),
                                        ('url', ('builtins.str', "'file'")),
                                        ('byte_ranges',
                                         ('builtins.list',
                                          [('builtins.tuple',
                                            [('builtins.int', '5'), ('builtins.int', '10')]),
                                           ('builtins.tuple',
                                            [('builtins.int', '15'), ('builtins.int', '20')]),
                                           ('builtins.tuple',
                                            [('builtins.int', '25'), ('builtins.int', '30')]),
                                           ('builtins.tuple',
                                            [('builtins.int', '35'), ('builtins.int', '40')])])),
                                        ('shape',
                                         ('builtins.tuple', [('builtins.int', '4'), ('builtins.int', '3')])),
                                        ('dtype', ('builtins.str', "'int16'")),
                                        ('type_code', ('builtins.str', "'IU2'")),
                                        ('records_per_chunk', ('builtins.int', '2')),
                                        ('chunk_offsets',
                                         ('builtins.dict',
                                          [(('builtins.int', '0'),
                                            ('builtins.dict',
                                             [(('builtins.str', "'offset'"), ('builtins.int', '5')),
                                              (('builtins.str', "'size'"), ('builtins.int', '15'))])),
                                           (('builtins.int', '1'),
                                            ('builtins.dict',
                                             [(('builtins.str', "'offset'"), ('builtins.int', '25')),
                                              (('builtins.str', "'size'"), ('builtins.int', '15'))]))])))))),
                                    (('builtins.str', "'t'"),
                                     ('ceos_alos2.hierarchy.Variable',
                                      ('dims', ('builtins.list', [('builtins.str', "'t'")])),
                                      ('attrs', ('builtins.dict', [])),
                                      ('data',
                                       ('numpy.ndarray',
                                        'datetime64[s]',
                                        (2,),
                                        '[datetime.datetime(2020, 1, 1, 0, 0), datetime.datetime(2020, 1, 2, '
                                        '0, 0)]')))),
                                    (('builtins.str', "'sub'"),
                                     ('ceos_alos2.hierarchy.Group',
                                      ('path', ('builtins.str', "'/sub'")),
                                      ('url', ('builtins.str', "'s3://bucket/data'")),
                                      ('attrs',
                                       ('builtins.dict',
                                        [(('builtins.str', "'k'"),
                                          ('builtins.list', [('builtins.int', '1')]))])),
                                      ('data',
                                       ('builtins.dict',
                                        [(('builtins.str', "'w'"),
                                          ('ceos_alos2.hierarchy.Variable',
                                           ('dims', ('builtins.list', [('builtins.str', "'x'")])),
                                           ('attrs', ('builtins.dict', [])),
                                           ('data',
                                            ('numpy.ndarray', 'float64', (2,), '[1.5, 2.5]'))))]))))])))),
                               "[('mapper.root',), ('mapper.root',), ('Path.is_file', "
                               "'4f7cfeeaf747854a0a17f4fa6b2181e08de541609edf2ad148ca93567cf73d6a/image.index'), "
                               "('Path.read_text', "
                               "'4f7cfeeaf747854a0a17f4fa6b2181e08de541609edf2ad148ca93567cf73d6a/image.index', "
                               '(), {})]'),
 "read_cache/'image'/both/None": (('returns',
                                   ('ceos_alos2.hierarchy.Group',
                                    ('path', ('builtins.str', "'/'")),
                                    ('url', ('builtins.str', "'s3://bucket/data'")),
                                    ('attrs',
                                     ('builtins.dict',
                                      [(('builtins.str', "'x'"),
                                        ('builtins.dict',
                                         [(('builtins.str', "'y'"),
                                           ('builtins.tuple',
                                            [('builtins.int', '1'),
                                             ('builtins.tuple',
                                              [('builtins.int', '2'), ('builtins.int', '3')])]))]))])),
                                    ('data',
                                     ('builtins.dict',
                                      [(('builtins.str', "'v'"),
                                        ('ceos_alos2.hierarchy.Variable',
                                         ('dims',
                                          ('builtins.list',
                                           [('builtins.str', "'rows'"), ('builtins.str', "'columns'")])),
                                         ('attrs',
                                          ('builtins.dict',
                                           [(('builtins.str', "'a'"),
                                             ('builtins.tuple',
                                              [('builtins.int', '1'), ('builtins.int', '2')]))])),
                                         ('data',
                                          ('ceos_alos2.array.Array',
                                           ('fs', 'DirFileSystem', '/path/to', 'LocalFileSystem'),
                                           ('url', ('builtins.str', "'file'")),
                                           ('byte_ranges',
                                            ('builtins.list',
                                             [('builtins.tuple',
                                               [('builtins.int', '5'), ('builtins.int', '10')]),
                                              ('builtins.tuple',
                                               [('builtins.int', '15'), ('builtins.int', '20')]),
                                              ('builtins.tuple',
                                               [('builtins.int', '25'), ('builtins.int', '30')]),
                                              ('builtins.tuple',
                                               [('builtins.int', '35'), ('builtins.int', '40')])])),
                                           ('shape',
                                            ('builtins.tuple',
                                             [('builtins.int', '4'), ('builtins.int', '3')])),
                                           ('dtype', ('builtins.str', "'int16'")),
                                           ('type_code', ('builtins.str', "'IU2'")),
                                           ('records_per_chunk', ('builtins.int', '1024')),
                                           ('chunk_offsets',
                                            ('builtins.dict',
                                             [(('builtins.int', '0'),
                                               ('builtins.dict',
                                                [(('builtins.str', "'offset'"), ('builtins.int', '5')),
                                                 (('builtins.str', "'size'"),
                                                  ('builtins.int', '35'))]))])))))),
                                       (('builtins.str', "'t'"),
                                        ('ceos_alos2.hierarchy.Variable',
                                         ('dims', ('builtins.list', [('builtins.str', "'t'")])),
                                         ('attrs', ('builtins.dict', [])),
                                         ('data',
                                          ('numpy.ndarray',
                                           'datetime64[s]',
                                           (2,),
                                           '[datetime.datetime(2020, 1, 1, 0, 0), datetime.datetime(2020, 1, '
                                           '2, 0, 0)]')))),
                                       (('builtins.str', "'sub'"),
                                        ('ceos_alos2.hierarchy.Group',
                                         ('path', ('builtins.str', "'/sub'")),
                                         ('url', ('builtins.str', "'s3://bucket/data'")),
                                         ('attrs',
                                          ('builtins.dict',
                                           [(('builtins.str', "'k'"),
                                             ('builtins.list', [('builtins.int', '1')]))])),
                                         ('data',
                                          ('builtins.dict',
                                           [(('builtins.str', "'w'"),
                                             ('ceos_alos2.hierarchy.Variable',
                                              ('dims', ('builtins.list', [('builtins.str', "'x'")])),
                                              ('attrs', ('builtins.dict', [])),
                                              ('data',
                                               ('numpy.ndarray', 'float64', (2,), '[1.5, 2.5]'))))]))))])))),
                                  "[('mapper.root',), ('mapper.root',), ('Path.is_file', "
                                  "'4f7cfeeaf747854a0a17f4fa6b2181e08de541609edf2ad148ca93567cf73d6a/image.index'), "
                                  "('Path.read_text', "
                                  "'4f7cfeeaf747854a0a17f4fa6b2181e08de541609edf2ad148ca93567cf73d6a/image.index', "
                                  '(), {})]'),
 "read_cache/'image'/both/positional": (('returns',
                                         ('ceos_alos2.hierarchy.Group',
                                          ('path', ('builtins.str', "'/'")),
                                          ('url', ('builtins.str', "'s3://bucket/data'")),
                                          ('attrs',
                                           ('builtins.dict',
                                            [(('builtins.str', "'x'"),
                                              ('builtins.dict',
                                               [(('builtins.str', "'y'"),
                                                 ('builtins.tuple',
                                                  [('builtins.int', '1'),
                                                   ('builtins.tuple',
                                                    [('builtins.int', '2'), ('builtins.int', '3')])]))]))])),
                                          ('data',
                                           ('builtins.dict',
                                            [(('builtins.str', "'v'"),
                                              ('ceos_alos2.hierarchy.Variable',
                                               ('dims',
                                                ('builtins.list',
                                                 [('builtins.str', "'rows'"),
                                                  ('builtins.str', "'columns'")])),
                                               ('attrs',
                                                ('builtins.dict',
                                                 [(('builtins.str', "'a'"),
                                                   ('builtins.tuple',
                                                    [('builtins.int', '1'), ('builtins.int', '2')]))])),
                                               ('data',
                                                ('ceos_alos2.array.Array',
                                                 ('fs', 'DirFileSystem', '/path/to', 'LocalFileSystem'),
                                                 ('url', ('builtins.str', "'file'")),
                                                 ('byte_ranges',
                                                  ('builtins.list',
                                                   [('builtins.tuple',
                                                     [('builtins.int', '5'), ('builtins.int', '10')]),
                                                    ('builtins.tuple',
                                                     [('builtins.int', '15'), ('builtins.int', '20')]),
                                                    ('builtins.tuple',
                                                     [('builtins.int', '25'), ('builtins.int', '30')]),
                                                    ('builtins.tuple',
                                                     [('builtins.int', '35'), ('builtins.int', '40')])])),
                                                 ('shape',
                                                  ('builtins.tuple',
                                                   [('builtins.int', '4'), ('builtins.int', '3')])),
                                                 ('dtype', ('builtins.str', "'int16'")),
                                                 ('type_code', ('builtins.str', "'IU2'")),
                                                 ('records_per_chunk', ('builtins.int', '3')),
                                                 ('chunk_offsets',
                                                  ('builtins.dict',
                                                   [(('builtins.int', '0'),
                                                     ('builtins.dict',
                                                      [(('builtins.str', "'offset'"), ('builtins.int', '5')),
                                                       (('builtins.str', "'size'"),
                                                        ('builtins.int', '25'))])),
                                                    (('builtins.int', '1'),
                                                     ('builtins.dict',
                                                      [(('builtins.str', "'offset'"), ('builtins.int', '35')),
                                                       (('builtins.str', "'size'"),
                                                        ('builtins.int', '5'))]))])))))),
                                             (('builtins.str', "'t'"),
                                              ('ceos_alos2.hierarchy.Variable',
                                               ('dims', ('builtins.list', [('builtins.str', "'t'")])),
                                               ('attrs', ('builtins.dict', [])),
                                               ('data',
                                                ('numpy.ndarray',
                                                 'datetime64[s]',
                                                 (2,),
                                                 '[datetime.datetime(2020, 1, 1, 0, 0), '
                                                 'datetime.datetime(2020, 1, 2, 0, 0)]')))),
                                             (('builtins.str', "'sub'"),
                                              ('ceos_alos2.hierarchy.Group',
                                               ('path', ('builtins.str', "'/sub'")),
                                               ('url', ('builtins.str', "'s3://bucket/data'")),
                                               ('attrs',
                                                ('builtins.dict',
                                                 [(('builtins.str', "'k'"),
                                                   ('builtins.list', [('builtins.int', '1')]))])),
                                               ('data',
                                                ('builtins.dict',
                                                 [(('builtins.str', "'w'"),
                                                   ('ceos_alos2.hierarchy.Variable',
                                                    ('dims', ('builtins.list', [('builtins.str', "'x'")])),
                                                    ('attrs', ('builtins.dict', [])),
                                                    ('data',
                                                     ('numpy.ndarray',
                                                      'float64',
                                                      (2,),
                                                      '[1.5, 2.5]'))))]))))])))),
                                        "[('mapper.root',), ('mapper.root',), ('Path.is_file', "
                                        "'4f7cfeeaf747854a0a17f4fa6b2181e08de541609edf2ad148ca93567cf73d6a/image.index'), "
                                        "('Path.read_text', "
                                        "'4f7cfeeaf747854a0a17f4fa6b2181e08de541609edf2ad148ca93567cf73d6a/image.index', "
                                        '(), {})]'),
 "read_cache/'image'/local_invalid_remote_valid/2": (('raises',
                                                      'ceos_alos2.sar_image.caching.CachingError',
                                                      'invalid or incomplete cache file'),
                                                     "[('mapper.root',), ('mapper.root',), ('Path.is_file', "
                                                     "'4f7cfeeaf747854a0a17f4fa6b2181e08de541609edf2ad148ca93567cf73d6a/image.index'), "
                                                     "('Path.read_text', "
                                                     "'4f7cfeeaf747854a0a17f4fa6b2181e08de541609edf2ad148ca93567cf73d6a/image.index', "
                                                     '(), {})]'),
 "read_cache/'image'/local_invalid_remote_valid/None": (('raises',
                                                         'ceos_alos2.sar_image.caching.CachingError',
                                                         'invalid or incomplete cache file'),
                                                        "[('mapper.root',), ('mapper.root',), "
                                                        "('Path.is_file', "
                                                        "'4f7cfeeaf747854a0a17f4fa6b2181e08de541609edf2ad148ca93567cf73d6a/image.index'), "
                                                        "('Path.read_text', "
                                                        "'4f7cfeeaf747854a0a17f4fa6b2181e08de541609edf2ad148ca93567cf73d6a/image.index', "
                                                        '(), {})]'),
 "read_cache/'image'/local_invalid_remote_valid/positional": (('raises',
                                                               'ceos_alos2.sar_image.caching.CachingError',
                                                               'invalid or incomplete cache file'),
                                                              "[('mapper.root',), ('mapper.root',), "
                                                              "('Path.is_file', "
                                                              "'4f7cfeeaf747854a0a17f4fa6b2181e08de541609edf2ad148ca93567cf73d6a/image.index'), "
                                                              "('Path.read_text', "
                                                              "'4f7cfeeaf747854a0a17f4fa6b2181e08de541609edf2ad148ca93567cf73d6a/image.index', "
                                                              '(), {})]'),
 "read_cache/'image'/local_empty_remote_valid/2": (('raises',
                                                    'ceos_alos2.sar_image.caching.CachingError',
                                                    'invalid or incomplete cache file'),
                                                   "[('mapper.root',), ('mapper.root',), ('Path.is_file', "
                                                   "'4f7cfeeaf747854a0a17f4fa6b2181e08de541609edf2ad148ca93567cf73d6a/image.index'), "
                                                   "('Path.read_text', "
                                                   "'4f7cfeeaf747854a0a17f4fa6b2181e08de541609edf2ad148ca93567cf73d6a/image.index', "
                                                   '(), {})]'),
 "read_cache/'image'/local_empty_remote_valid/None": (('raises',
                                                       'ceos_alos2.sar_image.caching.CachingError',
                                                       'invalid or incomplete cache file'),
                                                      "[('mapper.root',), ('mapper.root',), ('Path.is_file', "
                                                      "'4f7cfeeaf747854a0a17f4fa6b2181e08de541609edf2ad148ca93567cf73d6a/image.index'), "
                                                      "('Path.read_text', "
                                                      "'4f7cfeeaf747854a0a17f4fa6b2181e08de541609edf2ad148ca93567cf73d6a/image.index', "
                                                      '(), {})]'),
 "read_cache/'image'/local_empty_remote_valid/positional": (('raises',
                                                             'ceos_alos2.sar_image.caching.CachingError',
                                                             'invalid or incomplete cache file'),
                                                            "[('mapper.root',), ('mapper.root',), "
                                                            "('Path.is_file', "
                                                            "'4f7cfeeaf747854a0a17f4fa6b2181e08de541609edf2ad148ca93567cf73d6a/image.index'), "
                                                            "('Path.read_text', "
                                                            "'4f7cfeeaf747854a0a17f4fa6b2181e08de541609edf2ad148ca93567cf73d6a/image.index', "
                                                            '(), {})]'),
 "read_cache/'image'/remote_invalid/2": (('raises',
                                          'ceos_alos2.sar_image.caching.CachingError',
                                          'invalid or incomplete cache file'),
                                         "[('mapper.root',), ('mapper.root',), ('Path.is_file', "
                                         "'4f7cfeeaf747854a0a17f4fa6b2181e08de541609edf2ad148ca93567cf73d6a/image.index'), "
                                         "('mapper.__contains__', 'image.index'), ('mapper.__getitem__', "
                                         "'image.index')]"),
 "read_cache/'image'/remote_invalid/None": (('raises',
                                             'ceos_alos2.sar_image.caching.CachingError',
                                             'invalid or incomplete cache file'),
                                            "[('mapper.root',), ('mapper.root',), ('Path.is_file', "
                                            "'4f7cfeeaf747854a0a17f4fa6b2181e08de541609edf2ad148ca93567cf73d6a/image.index'), "
                                            "('mapper.__contains__', 'image.index'), ('mapper.__getitem__', "
                                            "'image.index')]"),
 "read_cache/'image'/remote_invalid/positional": (('raises',
                                                   'ceos_alos2.sar_image.caching.CachingError',
                                                   'invalid or incomplete cache file'),
                                                  "[('mapper.root',), ('mapper.root',), ('Path.is_file', "
                                                  "'4f7cfeeaf747854a0a17f4fa6b2181e08de541609edf2ad148ca93567cf73d6a/image.index'), "
                                                  "('mapper.__contains__', 'image.index'), "
                                                  "('mapper.__getitem__', 'image.index')]"),
 "read_cache/'image'/remote_empty/2": (('raises',
                                        'ceos_alos2.sar_image.caching.CachingError',
                                        'invalid or incomplete cache file'),
                                       "[('mapper.root',), ('mapper.root',), ('Path.is_file', "
                                       "'4f7cfeeaf747854a0a17f4fa6b2181e08de541609edf2ad148ca93567cf73d6a/image.index'), "
                                       "('mapper.__contains__', 'image.index'), ('mapper.__getitem__', "
                                       "'image.index')]"),
 "read_cache/'image'/remote_empty/None": (('raises',
                                           'ceos_alos2.sar_image.caching.CachingError',
                                           'invalid or incomplete cache file'),
                                          "[('mapper.root',), ('mapper.root',), ('Path.is_file', "
                                          "'4f7cfeeaf747854a0a17f4fa6b2181e08de541609edf2ad148ca93567cf73d6a/image.index'), "
                                          "('mapper.__contains__', 'image.index'), ('mapper.__getitem__', "
                                          "'image.index')]"),
 "read_cache/'image'/remote_empty/positional": (('raises',
                                                 'ceos_alos2.sar_image.caching.CachingError',
                                                 'invalid or incomplete cache file'),
                                                "[('mapper.root',), ('mapper.root',), ('Path.is_file', "
                                                "'4f7cfeeaf747854a0a17f4fa6b2181e08de541609edf2ad148ca93567cf73d6a/image.index'), "
                                                "('mapper.__contains__', 'image.index'), "
                                                "('mapper.__getitem__', 'image.index')]"),
 "read_cache/'image'/remote_not_utf8/2": (('raises',
                                           'builtins.UnicodeDecodeError',
                                           "'utf-8' codec can't decode byte 0xff in position 0: invalid "
                                           'start byte'),
                                          "[('mapper.root',), ('mapper.root',), ('Path.is_file', "
                                          "'4f7cfeeaf747854a0a17f4fa6b2181e08de541609edf2ad148ca93567cf73d6a/image.index'), "
                                          "('mapper.__contains__', 'image.index'), ('mapper.__getitem__', "
                                          "'image.index')]"),
 "read_cache/'image'/remote_not_utf8/None": (('raises',
                                              'builtins.UnicodeDecodeError',
                                              "'utf-8' codec can't decode byte 0xff in position 0: invalid "
                                              'start byte'),
                                             "[('mapper.root',), ('mapper.root',), ('Path.is_file', "
                                             "'4f7cfeeaf747854a0a17f4fa6b2181e08de541609edf2ad148ca93567cf73d6a/image.index'), "
                                             "('mapper.__contains__', 'image.index'), ('mapper.__getitem__', "
                                             "'image.index')]"),
 "read_cache/'image'/remote_not_utf8/positional": (('raises',
                                                    'builtins.UnicodeDecodeError',
                                                    "'utf-8' codec can't decode byte 0xff in position 0: "
                                                    'invalid start byte'),
                                                   "[('mapper.root',), ('mapper.root',), ('Path.is_file', "
                                                   "'4f7cfeeaf747854a0a17f4fa6b2181e08de541609edf2ad148ca93567cf73d6a/image.index'), "
                                                   "('mapper.__contains__', 'image.index'), "
                                                   "('mapper.__getitem__', 'image.index')]"),
 "read_cache/'image'/remote_str/2": (('raises',
                                      'builtins.AttributeError',
                                      "'str' object has no attribute 'decode'"),
                                     "[('mapper.root',), ('mapper.root',), ('Path.is_file', "
                                     "'4f7cfeeaf747854a0a17f4fa6b2181e08de541609edf2ad148ca93567cf73d6a/image.index'), "
                                     "('mapper.__contains__', 'image.index'), ('mapper.__getitem__', "
                                     "'image.index')]"),
 "read_cache/'image'/remote_str/None": (('raises',
                                         'builtins.AttributeError',
                                         "'str' object has no attribute 'decode'"),
                                        "[('mapper.root',), ('mapper.root',), ('Path.is_file', "
                                        "'4f7cfeeaf747854a0a17f4fa6b2181e08de541609edf2ad148ca93567cf73d6a/image.index'), "
                                        "('mapper.__contains__', 'image.index'), ('mapper.__getitem__', "
                                        "'image.index')]"),
 "read_cache/'image'/remote_str/positional": (('raises',
                                               'builtins.AttributeError',
                                               "'str' object has no attribute 'decode'"),
                                              "[('mapper.root',), ('mapper.root',), ('Path.is_file', "
                                              "'4f7cfeeaf747854a0a17f4fa6b2181e08de541609edf2ad148ca93567cf73d6a/image.index'), "
                                              "('mapper.__contains__', 'image.index'), "
                                              "('mapper.__getitem__', 'image.index')]"),
 "read_cache/'image'/remote_under_basename_only/2": (('raises',
                                                      'ceos_alos2.sar_image.caching.CachingError',
                                                      'no cache found for image'),
                                                     "[('mapper.root',), ('mapper.root',), ('Path.is_file', "
                                                     "'4f7cfeeaf747854a0a17f4fa6b2181e08de541609edf2ad148ca93567cf73d6a/image.index'), "
                                                     "('mapper.__contains__', 'image.index')]"),
 "read_cache/'image'/remote_under_basename_only/None": (('raises',
                                                         'ceos_alos2.sar_image.caching.CachingError',
                                                         'no cache found for image'),
                                                        "[('mapper.root',), ('mapper.root',), "
                                                        "('Path.is_file', "
                                                        "'4f7cfeeaf747854a0a17f4fa6b2181e08de541609edf2ad148ca93567cf73d6a/image.index'), "
                                                        "('mapper.__contains__', 'image.index')]"),
 "read_cache/'image'/remote_under_basename_only/positional": (('raises',
                                                               'ceos_alos2.sar_image.caching.CachingError',
                                                               'no cache found for image'),
                                                              "[('mapper.root',), ('mapper.root',), "
                                                              "('Path.is_file', "
                                                              "'4f7cfeeaf747854a0a17f4fa6b2181e08de541609edf2ad148ca93567cf73d6a/image.index'), "
                                                              "('mapper.__contains__', 'image.index')]"),
 "read_cache/'sub/dir/image'/none/2": (('raises',
                                        'ceos_alos2.sar_image.caching.CachingError',
                                        'no cache found for sub/dir/image'),
                                       "[('mapper.root',), ('mapper.root',), ('Path.is_file', "
                                       "'4f7cfeeaf747854a0a17f4fa6b2181e08de541609edf2ad148ca93567cf73d6a/image.index'), "
                                       "('mapper.__contains__', 'sub/dir/image.index')]"),
 "read_cache/'sub/dir/image'/none/None": (('raises',
                                           'ceos_alos2.sar_image.caching.CachingError',
                                           'no cache found for sub/dir/image'),
                                          "[('mapper.root',), ('mapper.root',), ('Path.is_file', "
                                          "'4f7cfeeaf747854a0a17f4fa6b2181e08de541609edf2ad148ca93567cf73d6a/image.index'), "
                                          "('mapper.__contains__', 'sub/dir/image.index')]"),
 "read_cache/'sub/dir/image'/none/positional": (('raises',
                                                 'ceos_alos2.sar_image.caching.CachingError',
                                                 'no cache found for sub/dir/image'),
                                                "[('mapper.root',), ('mapper.root',), ('Path.is_file', "
                                                "'4f7cfeeaf747854a0a17f4fa6b2181e08de541609edf2ad148ca93567cf73d6a/image.index'), "
                                                "('mapper.__contains__', 'sub/dir/image.index')]"),
 "read_cache/'sub/dir/image'/local_only/2": (('returns',
                                              ('ceos_alos2.hierarchy.Group',
                                               ('path', ('builtins.str', "'/'")),
                                               ('url', ('builtins.str', "'s3://bucket/data'")),
                                               ('attrs',
                                                ('builtins.dict',
                                                 [(('builtins.str', "'x'"),
                                                   ('builtins.dict',
                                                    [(('builtins.str', "'y'"),
                                                      ('builtins.tuple',
                                                       [('builtins.int', '1'),
                                                        ('builtins.tuple',
                                                         [('builtins.int', '2'),
                                                          ('builtins.int', '3')])]))]))])),
                                               ('data',
                                                ('builtins.dict',
                                                 [(('builtins.str', "'v'"),
                                                   ('ceos_alos2.hierarchy.Variable',
                                                    ('dims',
                                                     ('builtins.list',
                                                      [('builtins.str', "'rows'"),
                                                       ('builtins.str', "'columns'")])),
                                                    ('attrs',
                                                     ('builtins.dict',
                                                      [(('builtins.str', "'a'"),
                                                        ('builtins.tuple',
                                                         [('builtins.int', '1'), ('builtins.int', '2')]))])),
                                                    ('data',
                                                     ('ceos_alos2.array.Array',
                                                      ('fs', 'DirFileSystem', '/path/to', 'LocalFileSystem'),
                                                      ('url', ('builtins.str', "'file'")),
                                                      ('byte_ranges',
                                                       ('builtins.list',
                                                        [('builtins.tuple',
                                                          [('builtins.int', '5'), ('builtins.int', '10')]),
                                                         ('builtins.tuple',
                                                          [('builtins.int', '15'), ('builtins.int', '20')]),
                                                         ('builtins.tuple',
                                                          [('builtins.int', '25'), ('builtins.int', '30')]),
                                                         ('builtins.tuple',
                                                          [('builtins.int', '35'),
                                                           ('builtins.int', '40')])])),
                                                      ('shape',
                                                       ('builtins.tuple',
                                                        [('builtins.int', '4'), ('builtins.int', '3')])),
                                                      ('dtype', ('builtins.str', "'int16'")),
                                                      ('type_code', ('builtins.str', "'IU2'")),
                                                      ('records_per_chunk', ('builtins.int', '2')),
                                                      ('chunk_offsets',
                                                       ('builtins.dict',
                                                        [(('builtins.int', '0'),
                                                          ('builtins.dict',
                                                           [(('builtins.str', "'offset'"),
                                                             ('builtins.int', '5')),
                                                            (('builtins.str', "'size'"),
                                                             ('builtins.int', '15'))])),
                                                         (('builtins.int', '1'),
                                                          ('builtins.dict',
                                                           [(('builtins.str', "'offset'"),
                                                             ('builtins.int', '25')),
                                                            (('builtins.str', "'size'"),
                                                             ('builtins.int', '15'))]))])))))),
                                                  (('builtins.str', "'t'"),
                                                   ('ceos_alos2.hierarchy.Variable',
                                                    ('dims', ('builtins.list', [('builtins.str', "'t'")])),
                                                    ('attrs', ('builtins.dict', [])),
                                                    ('data',
                                                     ('numpy.ndarray',
                                                      'datetime64[s]',
                                                      (2,),
                                                      '[datetime.datetime(2020, 1, 1, 0, 0), '
                                                      'datetime.datetime(2020, 1, 2, 0, 0)]')))),
                                                  (('builtins.str', "'sub'"),
                                                   ('ceos_alos2.hierarchy.Group',
                                                    ('path', ('builtins.str', "'/sub'")),
                                                    ('url', ('builtins.str', "'s3://bucket/data'")),
                                                    ('attrs',
                                                     ('builtins.dict',
                                                      [(('builtins.str', "'k'"),
                                                        ('builtins.list', [('builtins.int', '1')]))])),
                                                    ('data',
                                                     ('builtins.dict',
                                                      [(('builtins.str', "'w'"),
                                                        ('ceos_alos2.hierarchy.Variable',
                                                         ('dims',
                                                          ('builtins.list', [('builtins.str', "'x'")])),
                                                         ('attrs', ('builtins.dict', [])),
                                                         ('data',
                                                          ('numpy.ndarray',
                                                           'float64',
                                                           (2,),
                                                           '[1.5, 2.5]'))))]))))])))),
                                             "[('mapper.root',), ('mapper.root',), ('Path.is_file', "
                                             "'4f7cfeeaf747854a0a17f4fa6b2181e08de541609edf2ad148ca93567cf73d6a/image.index'), "
                                             "('Path.read_text', "
                                             "'4f7cfeeaf747854a0a17f4fa6b2181e08de541609edf2ad148ca93567cf73d6a/image.index', "
                                             '(), {})]'),
 "read_cache/'sub/dir/image'/local_only/None": (('returns',
                                                 ('ceos_alos2.hierarchy.Group',
                                                  ('path', ('builtins.str', "'/'")),
                                                  ('url', ('builtins.str', "'s3://bucket/data'")),
                                                  ('attrs',
                                                   ('builtins.dict',
                                                    [(('builtins.str', "'x'"),
                                                      ('builtins.dict',
                                                       [(('builtins.str', "'y'"),
                                                         ('builtins.tuple',
                                                          [('builtins.int', '1'),
                                                           ('builtins.tuple',
                                                            [('builtins.int', '2'),
                                                             ('builtins.int', '3')])]))]))])),
                                                  ('data',
                                                   ('builtins.dict',
                                                    [(('builtins.str', "'v'"),
                                                      ('ceos_alos2.hierarchy.Variable',
                                                       ('dims',
                                                        ('builtins.list',
                                                         [('builtins.str', "'rows'"),
                                                          ('builtins.str', "'columns'")])),
                                                       ('attrs',
                                                        ('builtins.dict',
                                                         [(('builtins.str', "'a'"),
                                                           ('builtins.tuple',
                                                            [('builtins.int', '1'),
                                                             ('builtins.int', '2')]))])),
                                                       ('data',
                                                        ('ceos_alos2.array.Array',
                                                         ('fs',
                                                          'DirFileSystem',
                                                          '/path/to',
                                                          'LocalFileSystem'),
                                                         ('url', ('builtins.str', "'file'")),
                                                         ('byte_ranges',
                                                          ('builtins.list',
                                                           [('builtins.tuple',
                                                             [('builtins.int', '5'), ('builtins.int', '10')]),
                                                            ('builtins.tuple',
                                                             [('builtins.int', '15'),
                                                              ('builtins.int', '20')]),
                                                            ('builtins.tuple',
                                                             [('builtins.int', '25'),
                                                              ('builtins.int', '30')]),
                                                            ('builtins.tuple',
                                                             [('builtins.int', '35'),
                                                              ('builtins.int', '40')])])),
                                                         ('shape',
                                                          ('builtins.tuple',
                                                           [('builtins.int', '4'), ('builtins.int', '3')])),
                                                         ('dtype', ('builtins.str', "'int16'")),
                                                         ('type_code', ('builtins.str', "'IU2'")),
                                                         ('records_per_chunk', ('builtins.int', '1024')),
                                                         ('chunk_offsets',
                                                          ('builtins.dict',
                                                           [(('builtins.int', '0'),
                                                             ('builtins.dict',
                                                              [(('builtins.str', "'offset'"),
                                                                ('builtins.int', '5')),
                                                               (('builtins.str', "'size'"),
                                                                ('builtins.int', '35'))]))])))))),
                                                     (('builtins.str', "'t'"),
                                                      ('ceos_alos2.hierarchy.Variable',
                                                       ('dims', ('builtins.list', [('builtins.str', "'t'")])),
                                                       ('attrs', ('builtins.dict', [])),
                                                       ('data',
                                                        ('numpy.ndarray',
                                                         'datetime64[s]',
                                                         (2,),
                                                         '[datetime.datetime(2020, 1, 1, 0, 0), '
                                                         'datetime.datetime(2020, 1, 2, 0, 0)]')))),
                                                     (('builtins.str', "'sub'"),
                                                      ('ceos_alos2.hierarchy.Group',
                                                       ('path', ('builtins.str', "'/sub'")),
                                                       ('url', ('builtins.str', "'s3://bucket/data'")),
                                                       ('attrs',
                                                        ('builtins.dict',
                                                         [(('builtins.str', "'k'"),
                                                           ('builtins.list', [('builtins.int', '1')]))])),
                                                       ('data',
                                                        ('builtins.dict',
                                                         [(('builtins.str', "'w'"),
                                                           ('ceos_alos2.hierarchy.Variable',
                                                            ('dims',
                                                             ('builtins.list', [('builtins.str', "'x'")])),
                                                            ('attrs', ('builtins.dict', [])),
                                                            ('data',
                                                             ('numpy.ndarray',
                                                              'float64',
                                                              (2,),
                                                              '[1.5, 2.5]'))))]))))])))),
                                                "[('mapper.root',), ('mapper.root',), ('Path.is_file', "
                                                "'4f7cfeeaf747854a0a17f4fa6b2181e08de541609edf2ad148ca93567cf73d6a/image.index'), "
                                                "('Path.read_text', "
                                                "'4f7cfeeaf747854a0a17f4fa6b2181e08de541609edf2ad148ca93567cf73d6a/image.index', "
                                                '(), {})]'),
 "read_cache/'sub/dir/image'/local_only/positional": (('returns',
                                                       ('ceos_alos2.hierarchy.Group',
                                                        ('path', ('builtins.str', "'/'")),
                                                        ('url', ('builtins.str', "'s3://bucket/data'")),
                                                        ('attrs',
                                                         ('builtins.dict',
                                                          [(('builtins.str', "'x'"),
                                                            ('builtins.dict',
                                                             [(('builtins.str', "'y'"),
                                                               ('builtins.tuple',
                                                                [('builtins.int', '1'),
                                                                 ('builtins.tuple',
                                                                  [('builtins.int', '2'),
                                                                   ('builtins.int', '3')])]))]))])),
                                                        ('data',
                                                         ('builtins.dict',
                                                          [(('builtins.str', "'v'"),
                                                            ('ceos_alos2.hierarchy.Variable',
                                                             ('dims',
                                                              ('builtins.list',
                                                               [('builtins.str', "'rows'"),
                                                                ('builtins.str', "'columns'")])),
                                                             ('attrs',
                                                              ('builtins.dict',
                                                               [(('builtins.str', "'a'"),
                                                                 ('builtins.tuple',
                                                                  [('builtins.int', '1'),
                                                                   ('builtins.int', '2')]))])),
                                                             ('data',
                                                              ('ceos_alos2.array.Array',
                                                               ('fs',
                                                                'DirFileSystem',
                                                                '/path/to',
                                                                'LocalFileSystem'),
                                                               ('url', ('builtins.str', "'file'")),
                                                               ('byte_ranges',
                                                                ('builtins.list',
                                                                 [('builtins.tuple',
                                                                   [('builtins.int', '5'),
                                                                    ('builtins.int', '10')]),
                                                                  ('builtins.tuple',
                                                                   [('builtins.int', '15'),
                                                                    ('builtins.int', '20')]),
                                                                  ('builtins.tuple',
                                                                   [('builtins.int', '25'),
                                                                    ('builtins.int', '30')]),
                                                                  ('builtins.tuple',
                                                                   [('builtins.int', '35'),
                                                                    ('builtins.int', '40')])])),
                                                               ('shape',
                                                                ('builtins.tuple',
                                                                 [('builtins.int', '4'),
                                                                  ('builtins.int', '3')])),
                                                               ('dtype', ('builtins.str', "'int16'")),
                                                               ('type_code', ('builtins.str', "'IU2'")),
                                                               ('records_per_chunk', ('builtins.int', '3')),
                                                               ('chunk_offsets',
                                                                ('builtins.dict',
                                                                 [(('builtins.int', '0'),
                                                                   ('builtins.dict',
                                                                    [(('builtins.str', "'offset'"),
                                                                      ('builtins.int', '5')),
                                                                     (('builtins.str', "'size'"),
                                                                      ('builtins.int', '25'))])),
                                                                  (('builtins.int', '1'),
                                                                   ('builtins.dict',
                                                                    [(('builtins.str', "'offset'"),
                                                                      ('builtins.int', '35')),
                                                                     (('builtins.str', "'size'"),
                                                                      ('builtins.int', '5'))]))])))))),
                                                           (('builtins.str', "'t'"),
                                                            ('ceos_alos2.hierarchy.Variable',
                                                             ('dims',
                                                              ('builtins.list', [('builtins.str', "'t'")])),
                                                             ('attrs', ('builtins.dict', [])),
                                                             ('data',
                                                              ('numpy.ndarray',
                                                               'datetime64[s]',
                                                               (2,),
                                                               '[datetime.datetime(2020, 1, 1, 0, 0), '
                                                               'datetime.datetime(2020, 1, 2, 0, 0)]')))),
                                                           (('builtins.str', "'sub'"),
                                                            ('ceos_alos2.hierarchy.Group',
                                                             ('path', ('builtins.str', "'/sub'")),
                                                             ('url', ('builtins.str', "'s3://bucket/data'")),
                                                             ('attrs',
                                                              ('builtins.dict',
                                                               [(('builtins.str', "'k'"),
                                                                 ('builtins.list',
                                                                  [('builtins.int', '1')]))])),
                                                             ('data',
                                                              ('builtins.dict',
                                                               [(('builtins.str', "'w'"),
                                                                 ('ceos_alos2.hierarchy.Variable',
                                                                  ('dims',
                                                                   ('builtins.list',
                                                                    [('builtins.str', "'x'")])),
                                                                  ('attrs', ('builtins.dict', [])),
                                                                  ('data',
                                                                   ('numpy.ndarray',
                                                                    'float64',
                                                                    (2,),
                                                                    '[1.5, 2.5]'))))]))))])))),
                                                      "[('mapper.root',), ('mapper.root',), ('Path.is_file', "
                                                      "'4f7cfeeaf747854a0a17f4fa6b2181e08de541609edf2ad148ca93567cf73d6a/image.index'), "
                                                      "('Path.read_text', "
                                                      "'4f7cfeeaf747854a0a17f4fa6b2181e08de541609edf2ad148ca93567cf73d6a/image.index', "
                                                      '(), {})]'),
 "read_cache/'sub/dir/image'/remote_only/2": (('returns',
                                               ('ceos_alos2.hierarchy.Group',
                                                ('path', ('builtins.str', "'/'")),
                                                ('url', ('builtins.str', "'s3://bucket/data'")),
                                                ('attrs', ('builtins.dict', [])),
                                                ('data', ('builtins.dict', [])))),
                                              "[('mapper.root',), ('mapper.root',), ('Path.is_file', "
                                              "'4f7cfeeaf747854a0a17f4fa6b2181e08de541609edf2ad148ca93567cf73d6a/image.index'), "
                                              "('mapper.__contains__', 'sub/dir/image.index'), "
                                              "('mapper.__getitem__', 'sub/dir/image.index')]"),
 "read_cache/'sub/dir/image'/remote_only/None": (('returns',
                                                  ('ceos_alos2.hierarchy.Group',
                                                   ('path', ('builtins.str', "'/'")),
                                                   ('url', ('builtins.str', "'s3://bucket/data'")),
                                                   ('attrs', ('builtins.dict', [])),
                                                   ('data', ('builtins.dict', [])))),
                                                 "[('mapper.root',), ('mapper.root',), ('Path.is_file', "
                                                 "'4f7cfeeaf747854a0a17f4fa6b2181e08de541609edf2ad148ca93567cf73d6a/image.index'), "
                                                 "('mapper.__contains__', 'sub/dir/image.index'), "
                                                 "('mapper.__getitem__', 'sub/dir/image.index')]"),
 "read_cache/'sub/dir/image'/remote_only/positional": (('returns',
                                                        ('ceos_alos2.hierarchy.Group',
                                                         ('path', ('builtins.str', "'/'")),
                                                         ('url', ('builtins.str', "'s3://bucket/data'")),
                                                         ('attrs', ('builtins.dict', [])),
                                                         ('data', ('builtins.dict', [])))),
                                                       "[('mapper.root',), ('mapper.root',), "
                                                       "('Path.is_file', "
                                                       "'4f7cfeeaf747854a0a17f4fa6b2181e08de541609edf2ad148ca93567cf73d6a/image.index'), "
                                                       "('mapper.__contains__', 'sub/dir/image.index'), "
                                                       "('mapper.__getitem__', 'sub/dir/image.index')]"),
 "read_cache/'sub/dir/image'/both/2": (('returns',
                                        ('ceos_alos2.hierarchy.Group',
                                         ('path', ('builtins.str', "'/'")),
                                         ('url', ('builtins.str', "'s3://bucket/data'")),
                                         ('attrs',
                                          ('builtins.dict',
                                           [(('builtins.str', "'x'"),
                                             ('builtins.dict',
                                              [(('builtins.str', "'y'"),
                                                ('builtins.tuple',
                                                 [('builtins.int', '1'),
                                                  ('builtins.tuple',
                                                   [('builtins.int', '2'), ('builtins.int', '3')])]))]))])),
                                         ('data',
                                          ('builtins.dict',
                                           [(('builtins.str', "'v'"),
                                             ('ceos_alos2.hierarchy.Variable',
                                              ('dims',
                                               ('builtins.list',
                                                [('builtins.str', "'rows'"), ('builtins.str', "'columns'")])),
                                              ('attrs',
                                               ('builtins.dict',
                                                [(('builtins.str', "'a'"),
                                                  ('builtins.tuple',
                                                   [('builtins.int', '1'), ('builtins.int', '2')]))])),
                                              ('data',
                                               ('ceos_alos2.array.Array',
                                                ('fs', 'DirFileSystem', '/path/to', 'LocalFileSystem'),
                                                ('url', ('builtins.str', "'file'")),
                                                ('byte_ranges',
                                                 ('builtins.list',
                                                  [('builtins.tuple',
                                                    [('builtins.int', '5'), ('builtins.int', '10')]),
                                                   ('builtins.tuple',
                                                    [('builtins.int', '15'), ('builtins.int', '20')]),
                                                   ('builtins.tuple',
                                                    [('builtins.int', '25'), ('builtins.int', '30')]),
                                                   ('builtins.tuple',
                                                    [('builtins.int', '35'), ('builtins.int', '40')])])),
                                                ('shape',
                                                 ('builtins.tuple',
                                                  [('builtins.int', '4'), ('builtins.int', '3')])),
                                                ('dtype', ('builtins.str', "'int16'")),
                                                ('type_code', ('builtins.str', "'IU2'")),
                                                ('records_per_chunk', ('builtins.int', '2')),
                                                ('chunk_offsets',
                                                 ('builtins.dict',
                                                  [(('builtins.int', '0'),
                                                    ('builtins.dict',
                                                     [(('builtins.str', "'offset'"), ('builtins.int', '5')),
                                                      (('builtins.str', "'size'"), ('builtins.int', '15'))])),
                                                   (('builtins.int', '1'),
                                                    ('builtins.dict',
                                                     [(('builtins.str', "'offset'"), ('builtins.int', '25')),
                                                      (('builtins.str', "'size'"),
                                                       ('builtins.int', '15'))]))])))))),
                                            (('builtins.str', "'t'"),
                                             ('ceos_alos2.hierarchy.Variable',
                                              ('dims', ('builtins.list', [('builtins.str', "'t'")])),
                                              ('attrs', ('builtins.dict', [])),
                                              ('data',
                                               ('numpy.ndarray',
                                                'datetime64[s]',
                                                (2,),
                                                '[datetime.datetime(2020, 1, 1, 0, 0), '
                                                'datetime.datetime(2020, 1, 2, 0, 0)]')))),
                                            (('builtins.str', "'sub'"),
                                             ('ceos_alos2.hierarchy.Group',
                                              ('path', ('builtins.str', "'/sub'")),
                                              ('url', ('builtins.str', "'s3://bucket/data'")),
                                              ('attrs',
                                               ('builtins.dict',
                                                [(('builtins.str', "'k'"),
                                                  ('builtins.list', [('builtins.int', '1')]))])),
                                              ('data',
                                               ('builtins.dict',
                                                [(('builtins.str', "'w'"),
                                                  ('ceos_alos2.hierarchy.Variable',
                                                   ('dims', ('builtins.list', [('builtins.str', "'x'")])),
                                                   ('attrs', ('builtins.dict', [])),
                                                   ('data',
                                                    ('numpy.ndarray',
                                                     'float64',
                                                     (2,),
                                                     '[1.5, 2.5]'))))]))))])))),
                                       "[('mapper.root',), ('mapper.root',), ('Path.is_file', "
                                       "'4f7cfeeaf747854a0a17f4fa6b2181e08de541609edf2ad148ca93567cf73d6a/image.index'), "
                                       "('Path.read_text', "
                                       "'4f7cfeeaf747854a0a17f4fa6b2181e08de541609edf2ad148ca93567cf73d6a/image.index', "
                                       '(), {})]'),
 "read_cache/'sub/dir/image'/both/None": (('returns',
                                           ('ceos_alos2.hierarchy.Group',
                                            ('path', ('builtins.str', "'/'")),
                                            ('url', ('builtins.str', "'s3://bucket/data'")),
                                            ('attrs',
                                             ('builtins.dict',
                                              [(('builtins.str', "'x'"),
                                                ('builtins.dict',
                                                 [(('builtins.str', "'y'"),
                                                   ('builtins.tuple',
                                                    [('builtins.int', '1'),
                                                     ('builtins.tuple',
                                                      [('builtins.int', '2'),
                                                       ('builtins.int', '3')])]))]))])),
                                            ('data',
                                             ('builtins.dict',
                                              [(('builtins.str', "'v'"),
                                                ('ceos_alos2.hierarchy.Variable',
                                                 ('dims',
                                                  ('builtins.list',
                                                   [('builtins.str', "'rows'"),
                                                    ('builtins.str', "'columns'")])),
                                                 ('attrs',
                                                  ('builtins.dict',
                                                   [(('builtins.str', "'a'"),
                                                     ('builtins.tuple',
                                                      [('builtins.int', '1'), ('builtins.int', '2')]))])),
                                                 ('data',
                                                  ('ceos_alos2.array.Array',
                                                   ('fs', 'DirFileSystem', '/path/to', 'LocalFileSystem'),
                                                   ('url', ('builtins.str', "'file'")),
                                                   ('byte_ranges',
                                                    ('builtins.list',
                                                     [('builtins.tuple',
                                                       [('builtins.int', '5'), ('builtins.int', '10')]),
                                                      ('builtins.tuple',
                                                       [('builtins.int', '15'), ('builtins.int', '20')]),
                                                      ('builtins.tuple',
                                                       [('builtins.int', '25'), ('builtins.int', '30')]),
                                                      ('builtins.tuple',
                                                       [('builtins.int', '35'), ('builtins.int', '40')])])),
                                                   ('shape',
                                                    ('builtins.tuple',
                                                     [('builtins.int', '4'), ('builtins.int', '3')])),
                                                   ('dtype', ('builtins.str', "'int16'")),
                                                   ('type_code', ('builtins.str', "'IU2'")),
                                                   ('records_per_chunk', ('builtins.int', '1024')),
                                                   ('chunk_offsets',
                                                    ('builtins.dict',
                                                     [(('builtins.int', '0'),
                                                       ('builtins.dict',
                                                        [(('builtins.str', "'offset'"),
                                                          ('builtins.int', '5')),
                                                         (('builtins.str', "'size'"),
                                                          ('builtins.int', '35'))]))])))))),
                                               (('builtins.str', "'t'"),
                                                ('ceos_alos2.hierarchy.Variable',
                                                 ('dims', ('builtins.list', [('builtins.str', "'t'")])),
                                                 ('attrs', ('builtins.dict', [])),
                                                 ('data',
                                                  ('numpy.ndarray',
                                                   'datetime64[s]',
                                                   (2,),
                                                   '[datetime.datetime(2020, 1, 1, 0, 0), '
                                                   'datetime.datetime(2020, 1, 2, 0, 0)]')))),
                                               (('builtins.str', "'sub'"),
                                                ('ceos_alos2.hierarchy.Group',
                                                 ('path', ('builtins.str', "'/sub'")),
                                                 ('url', ('builtins.str', "'s3://bucket/data'")),
                                                 ('attrs',
                                                  ('builtins.dict',
                                                   [(('builtins.str', "'k'"),
                                                     ('builtins.list', [('builtins.int', '1')]))])),
                                                 ('data',
                                                  ('builtins.dict',
                                                   [(('builtins.str', "'w'"),
                                                     ('ceos_alos2.hierarchy.Variable',
                                                      ('dims', ('builtins.list', [('builtins.str', "'x'")])),
                                                      ('attrs', ('builtins.dict', [])),
                                                      ('data',
                                                       ('numpy.ndarray',
                                                        'float64',
                                                        (2,),
                                                        '[1.5, 2.5]'))))]))))])))),
                                          "[('mapper.root',), ('mapper.root',), ('Path.is_file', "
                                          "'4f7cfeeaf747854a0a17f4fa6b2181e08de541609edf2ad148ca93567cf73d6a/image.index'), "
                                          "('Path.read_text', "
                                          "'4f7cfeeaf747854a0a17f4fa6b2181e08de541609edf2ad148ca93567cf73d6a/image.index', "
                                          '(), {})]'),
 "read_cache/'sub/dir/image'/both/positional": (('returns',
                                                 ('ceos_alos2.hierarchy.Group',
                                                  ('path', ('builtins.str', "'/'")),
                                                  ('url', ('builtins.str', "'s3://bucket/data'")),
                                                  ('attrs',
                                                   ('builtins.dict',
                                                    [(('builtins.str', "'x'"),
                                                      ('builtins.dict',
                                                       [(('builtins.str', "'y'"),
                                                         ('builtins.tuple',
                                                          [('builtins.int', '1'),
                                                           ('builtins.tuple',
                                                            [('builtins.int', '2'),
                                                             ('builtins.int', '3')])]))]))])),
                                                  ('data',
                                                   ('builtins.dict',
                                                    [(('builtins.str', "'v'"),
                                                      ('ceos_alos2.hierarchy.Variable',
                                                       ('dims',
                                                        ('builtins.list',
                                                         [('builtins.str', "'rows'"),
                                                          ('builtins.str', "'columns'")])),
                                                       ('attrs',
                                                        ('builtins.dict',
                                                         [(('builtins.str', "'a'"),
                                                           ('builtins.tuple',
                                                            [('builtins.int', '1'),
                                                             ('builtins.int', '2')]))])),
                                                       ('data',
                                                        ('ceos_alos2.array.Array',
                                                         ('fs',
                                                          'DirFileSystem',
                                                          '/path/to',
                                                          'LocalFileSystem'),
                                                         ('url', ('builtins.str', "'file'")),
                                                         ('byte_ranges',
                                                          ('builtins.list',
                                                           [('builtins.tuple',
                                                             [('builtins.int', '5'), ('builtins.int', '10')]),
                                                            ('builtins.tuple',
                                                             [('builtins.int', '15'),
                                                              ('builtins.int', '20')]),
                                                            ('builtins.tuple',
                                                             [('builtins.int', '25'),
                                                              ('builtins.int', '30')]),
                                                            ('builtins.tuple',
                                                             [('builtins.int', '35'),
                                                              ('builtins.int', '40')])])),
                                                         ('shape',
                                                          ('builtins.tuple',
                                                           [('builtins.int', '4'), ('builtins.int', '3')])),
                                                         ('dtype', ('builtins.str', "'int16'")),
                                                         ('type_code', ('builtins.str', "'IU2'")),
                                                         ('records_per_chunk', ('builtins.int', '3')),
                                                         ('chunk_offsets',
                                                          ('builtins.dict',
                                                           [(('builtins.int', '0'),
                                                             ('builtins.dict',
                                                              [(('builtins.str', "'offset'"),
                                                                ('builtins.int', '5')),
                                                               (('builtins.str', "'size'"),
                                                                ('builtins.int', '25'))])),
                                                            (('builtins.int', '1'),
                                                             ('builtins.dict',
                                                              [(('builtins.str', "'offset'"),
                                                                ('builtins.int', '35')),
                                                               (('builtins.str', "'size'"),
                                                                ('builtins.int', '5'))]))])))))),
                                                     (('builtins.str', "'t'"),
                                                      ('ceos_alos2.hierarchy.Variable',
                                                       ('dims', ('builtins.list', [('builtins.str', "'t'")])),
                                                       ('attrs', ('builtins.dict', [])),
                                                       ('data',
                                                        ('numpy.ndarray',
                                                         'datetime64[s]',
                                                         (2,),
                                                         '[datetime.datetime(2020, 1, 1, 0, 0), '
                                                         'datetime.datetime(2020, 1, 2, 0, 0)]')))),
                                                     (('builtins.str', "'sub'"),
                                                      ('ceos_alos2.hierarchy.Group',
                                                       ('path', ('builtins.str', "'/sub'")),
                                                       ('url', ('builtins.str', "'s3://bucket/data'")),
                                                       ('attrs',
                                                        ('builtins.dict',
                                                         [(('builtins.str', "'k'"),
                                                           ('builtins.list', [('builtins.int', '1')]))])),
                                                       ('data',
                                                        ('builtins.dict',
                                                         [(('builtins.str', "'w'"),
                                                           ('ceos_alos2.hierarchy.Variable',
                                                            ('dims',
                                                             ('builtins.list', [('builtins.str', "'x'")])),
                                                            ('attrs', ('builtins.dict', [])),
                                                            ('data',
                                                             ('numpy.ndarray',
                                                              'float64',
                                                              (2,),
                                                              '[1.5, 2.5]'))))]))))])))),
                                                "[('mapper.root',), ('mapper.root',), ('Path.is_file', "
                                                "'4f7cfeeaf747854a0a17f4fa6b2181e08de541609edf2ad148ca93567cf73d6a/image.index'), "
                                                "('Path.read_text', "
                                                "'4f7cfeeaf747854a0a17f4fa6b2181e08de541609edf2ad148ca93567cf73d6a/image.index', "
                                                '(), {})]'),
 "read_cache/'sub/dir/image'/local_invalid_remote_valid/2": (('raises',
                                                              'ceos_alos2.sar_image.caching.CachingError',
                                                              'invalid or incomplete cache file'),
                                                             "[('mapper.root',), ('mapper.root',), "
                                                             "('Path.is_file', "
                                                             "'4f7cfeeaf747854a0a17f4fa6b2181e08de541609edf2ad148ca93567cf73d6a/image.index'), "
                                                             "('Path.read_text', "
                                                             "'4f7cfeeaf747854a0a17f4fa6b2181e08de541609edf2ad148ca93567cf73d6a/image.index', "
                                                             '(), {})]'),
 "read_cache/'sub/dir/image'/local_invalid_remote_valid/None": (('raises',
                                                                 'ceos_alos2.sar_image.caching.CachingError',
                                                                 'invalid or incomplete cache file'),
                                                                "[('mapper.root',), ('mapper.root',), "
                                                                "('Path.is_file', "
                                                                "'4f7cfeeaf747854a0a17f4fa6b2181e08de541609edf2ad148ca93567cf73d6a/image.index'), "
                                                                "('Path.read_text', "
                                                                "'4f7cfeeaf747854a0a17f4fa6b2181e08de541609edf2ad148ca93567cf73d6a/image.index', "
                                                                '(), {})]'),
 "read_cache/'sub/dir/image'/local_invalid_remote_valid/positional": (('raises',
                                                                       'ceos_alos2.sar_image.caching.CachingError',
                                                                       'invalid or incomplete cache file'),
                                                                      "[('mapper.root',), ('mapper.root',), "
                                                                      "('Path.is_file', "
                                                                      "'4f7cfeeaf747854a0a17f4fa6b2181e08de541609edf2ad148ca93567cf73d6a/image.index'), "
                                                                      "('Path.read_text', "
                                                                      "'4f7cfeeaf747854a0a17f4fa6b2181e08de541609edf2ad148ca93567cf73d6a/image.index', "
                                                                      '(), {})]'),
 "read_cache/'sub/dir/image'/local_empty_remote_valid/2": (('raises',
                                                            'ceos_alos2.sar_image.caching.CachingError',
                                                            'invalid or incomplete cache file'),
                                                           "[('mapper.root',), ('mapper.root',), "
                                                           "('Path.is_file', "
                                                           "'4f7cfeeaf747854a0a17f4fa6b2181e08de541609edf2ad148ca93567cf73d6a/image.index'), "
                                                           "('Path.read_text', "
                                                           "'4f7cfeeaf747854a0a17f4fa6b2181e08de541609edf2ad148ca93567cf73d6a/image.index', "
                                                           '(), {})]'),
 "read_cache/'sub/dir/image'/local_empty_remote_valid/None": (('raises',
                                                               'ceos_alos2.sar_image.caching.CachingError',
                                                               'invalid or incomplete cache file'),
                                                              "[('mapper.root',), ('mapper.root',), "
                                                              "('Path.is_file', "
                                                              "'4f7cfeeaf747854a0a17f4fa6b2181e08de541609edf2ad148ca93567cf73d6a/image.index'), "
                                                              "('Path.read_text', "
                                                              "'4f7cfeeaf747854a0a17f4fa6b2181e08de541609edf2ad148ca93567cf73d6a/image.index', "
                                                              '(), {})]'),
 "read_cache/'sub/dir/image'/local_empty_remote_valid/positional": (('raises',
                                                                     'ceos_alos2.sar_image.caching.CachingError',
                                                                     'invalid or incomplete cache file'),
                                                                    "[('mapper.root',), ('mapper.root',), "
                                                                    "('Path.is_file', "
                                                                    "'4f7cfeeaf747854a0a17f4fa6b2181e08de541609edf2ad148ca93567cf73d6a/image.index'), "
                                                                    "('Path.read_text', "
                                                                    "'4f7cfeeaf747854a0a17f4fa6b2181e08de541609edf2ad148ca93567cf73d6a/image.index', "
                                                                    '(), {})]'),
 "read_cache/'sub/dir/image'/remote_invalid/2": (('raises',
                                                  'ceos_alos2.sar_image.caching.CachingError',
                                                  'invalid or incomplete cache file'),
                                                 "[('mapper.root',), ('mapper.root',), ('Path.is_file', "
                                                 "'4f7cfeeaf747854a0a17f4fa6b2181e08de541609edf2ad148ca93567cf73d6a/image.index'), "
                                                 "('mapper.__contains__', 'sub/dir/image.index'), "
                                                 "('mapper.__getitem__', 'sub/dir/image.index')]"),
 "read_cache/'sub/dir/image'/remote_invalid/None": (('raises',
                                                     'ceos_alos2.sar_image.caching.CachingError',
                                                     'invalid or incomplete cache file'),
                                                    "[('mapper.root',), ('mapper.root',), ('Path.is_file', "
                                                    "'4f7cfeeaf747854a0a17f4fa6b2181e08de541609edf2ad148ca93567cf73d6a/image.index'), "
                                                    "('mapper.__contains__', 'sub/dir/image.index'), "
                                                    "('mapper.__getitem__', 'sub/dir/image.index')]"),
 "read_cache/'sub/dir/image'/remote_invalid/positional": (('raises',
                                                           'ceos_alos2.sar_image.caching.CachingError',
                                                           'invalid or incomplete cache file'),
                                                          "[('mapper.root',), ('mapper.root',), "
                                                          "('Path.is_file', "
                                                          "'4f7cfeeaf747854a0a17f4fa6b2181e08de541609edf2ad148ca93567cf73d6a/image.index'), "
                                                          "('mapper.__contains__', 'sub/dir/image.index'), "
                                                          "('mapper.__getitem__', 'sub/dir/image.index')]"),
 "read_cache/'sub/dir/image'/remote_empty/2": (('raises',
                                                'ceos_alos2.sar_image.caching.CachingError',
                                                'invalid or incomplete cache file'),
                                               "[('mapper.root',), ('mapper.root',), ('Path.is_file', "
                                               "'4f7cfeeaf747854a0a17f4fa6b2181e08de541609edf2ad148ca93567cf73d6a/image.index'), "
                                               "('mapper.__contains__', 'sub/dir/image.index'), "
                                               "('mapper.__getitem__', 'sub/dir/image.index')]"),
 "read_cache/'sub/dir/image'/remote_empty/None": (('raises',
                                                   'ceos_alos2.sar_image.caching.CachingError',
                                                   'invalid or incomplete cache file'),
                                                  "[('mapper.root',), ('mapper.root',), ('Path.is_file', "
                                                  "'4f7cfeeaf747854a0a17f4fa6b2181e08de541609edf2ad148ca93567cf73d6a/image.index'), "
                                                  "('mapper.__contains__', 'sub/dir/image.index'), "
                                                  "('mapper.__getitem__', 'sub/dir/image.index')]"),
 "read_cache/'sub/dir/image'/remote_empty/positional": (('raises',
                                                         'ceos_alos2.sar_image.caching.CachingError',
                                                         'invalid or incomplete cache file'),
                                                        "[('mapper.root',), ('mapper.root',), "
                                                        "('Path.is_file', "
                                                        "'4f7cfeeaf747854a0a17f4fa6b2181e08de541609edf2ad148ca93567cf73d6a/image.index'), "
                                                        "('mapper.__contains__', 'sub/dir/image.index'), "
                                                        "('mapper.__getitem__', 'sub/dir/image.index')]"),
 "read_cache/'sub/dir/image'/remote_not_utf8/2": (('raises',
                                                   'builtins.UnicodeDecodeError',
                                                   "'utf-8' codec can't decode byte 0xff in position 0: "
                                                   'invalid start byte'),
                                                  "[('mapper.root',), ('mapper.root',), ('Path.is_file', "
                                                  "'4f7cfeeaf747854a0a17f4fa6b2181e08de541609edf2ad148ca93567cf73d6a/image.index'), "
                                                  "('mapper.__contains__', 'sub/dir/image.index'), "
                                                  "('mapper.__getitem__', 'sub/dir/image.index')]"),
 "read_cache/'sub/dir/image'/remote_not_utf8/None": (('raises',
                                                      'builtins.UnicodeDecodeError',
                                                      "'utf-8' codec can't decode byte 0xff in position 0: "
                                                      'invalid start byte'),
                                                     "[('mapper.root',), ('mapper.root',), ('Path.is_file', "
                                                     "'4f7cfeeaf747854a0a17f4fa6b2181e08de541609edf2ad148ca93567cf73d6a/image.index'), "
                                                     "('mapper.__contains__', 'sub/dir/image.index'), "
                                                     "('mapper.__getitem__', 'sub/dir/image.index')]"),
 "read_cache/'sub/dir/image'/remote_not_utf8/positional": (('raises',
                                                            'builtins.UnicodeDecodeError',
                                                            "'utf-8' codec can't decode byte 0xff in "
                                                            'position 0: invalid start byte'),
                                                           "[('mapper.root',), ('mapper.root',), "
                                                           "('Path.is_file', "
                                                           "'4f7cfeeaf747854a0a17f4fa6b2181e08de541609edf2ad148ca93567cf73d6a/image.index'), "
                                                           "('mapper.__contains__', 'sub/dir/image.index'), "
                                                           "('mapper.__getitem__', 'sub/dir/image.index')]"),
 "read_cache/'sub/dir/image'/remote_str/2": (('raises',
                                              'builtins.AttributeError',
                                              "'str' object has no attribute 'decode'"),
                                             "[('mapper.root',), ('mapper.root',), ('Path.is_file', "
                                             "'4f7cfeeaf747854a0a17f4fa6b2181e08de541609edf2ad148ca93567cf73d6a/image.index'), "
                                             "('mapper.__contains__', 'sub/dir/image.index'), "
                                             "('mapper.__getitem__', 'sub/dir/image.index')]"),
 "read_cache/'sub/dir/image'/remote_str/None": (('raises',
                                                 'builtins.AttributeError',
                                                 "'str' object has no attribute 'decode'"),
                                                "[('mapper.root',), ('mapper.root',), ('Path.is_file', "
                                                "'4f7cfeeaf747854a0a17f4fa6b2181e08de541609edf2ad148ca93567cf73d6a/image.index'), "
                                                "('mapper.__contains__', 'sub/dir/image.index'), "
                                                "('mapper.__getitem__', 'sub/dir/image.index')]"),
 "read_cache/'sub/dir/image'/remote_str/positional": (('raises',
                                                       'builtins.AttributeError',
                                                       "'str' object has no attribute 'decode'"),
                                                      "[('mapper.root',), ('mapper.root',), ('Path.is_file', "
                                                      "'4f7cfeeaf747854a0a17f4fa6b2181e08de541609edf2ad148ca93567cf73d6a/image.index'), "
                                                      "('mapper.__contains__', 'sub/dir/image.index'), "
                                                      "('mapper.__getitem__', 'sub/dir/image.index')]"),
 "read_cache/'sub/dir/image'/remote_under_basename_only/2": (('raises',
                                                              'ceos_alos2.sar_image.caching.CachingError',
                                                              'no cache found for sub/dir/image'),
                                                             "[('mapper.root',), ('mapper.root',), "
                                                             "('Path.is_file', "
                                                             "'4f7cfeeaf747854a0a17f4fa6b2181e08de541609edf2ad148ca93567cf73d6a/image.index'), "
                                                             "('mapper.__contains__', "
                                                             "'sub/dir/image.index')]"),
 "read_cache/'sub/dir/image'/remote_under_basename_only/None": (('raises',
                                                                 'ceos_alos2.sar_image.caching.CachingError',
                                                                 'no cache found for sub/dir/image'),
                                                                "[('mapper.root',), ('mapper.root',), "
                                                                "('Path.is_file', "
                                                                "'4f7cfeeaf747854a0a17f4fa6b2181e08de541609edf2ad148ca93567cf73d6a/image.index'), "
                                                                "('mapper.__contains__', "
                                                                "'sub/dir/image.index')]"),
 "read_cache/'sub/dir/image'/remote_under_basename_only/positional": (('raises',
                                                                       'ceos_alos2.sar_image.caching.CachingError',
                                                                       'no cache found for sub/dir/image'),
                                                                      "[('mapper.root',), ('mapper.root',), "
                                                                      "('Path.is_file', "
                                                                      "'4f7cfeeaf747854a0a17f4fa6b2181e08de541609edf2ad148ca93567cf73d6a/image.index'), "
                                                                      "('mapper.__contains__', "
                                                                      "'sub/dir/image.index')]"),
 "read_cache/'/abs/image'/none/2": (('raises',
                                     'ceos_alos2.sar_image.caching.CachingError',
                                     'no cache found for /abs/image'),
                                    "[('mapper.root',), ('mapper.root',), ('Path.is_file', "
                                    "'4f7cfeeaf747854a0a17f4fa6b2181e08de541609edf2ad148ca93567cf73d6a/image.index'), "
                                    "('mapper.__contains__', '/abs/image.index')]"),
 "read_cache/'/abs/image'/none/None": (('raises',
                                        'ceos_alos2.sar_image.caching.CachingError',
                                        'no cache found for /abs/image'),
                                       "[('mapper.root',), ('mapper.root',), ('Path.is_file', "
                                       "'4f7cfeeaf747854a0a17f4fa6b2181e08de541609edf2ad148ca93567cf73d6a/image.index'), "
                                       "('mapper.__contains__', '/abs/image.index')]"),
 "read_cache/'/abs/image'/none/positional": (('raises',
                                              'ceos_alos2.sar_image.caching.CachingError',
                                              'no cache found for /abs/image'),
                                             "[('mapper.root',), ('mapper.root',), ('Path.is_file', "
                                             "'4f7cfeeaf747854a0a17f4fa6b2181e08de541609edf2ad148ca93567cf73d6a/image.index'), "
                                             "('mapper.__contains__', '/abs/image.index')]"),
 "read_cache/'/abs/image'/local_only/2": (('returns',
                                           ('ceos_alos2.hierarchy.Group',
                                            ('path', ('builtins.str', "'/'")),
                                            ('url', ('builtins.str', "'s3://bucket/data'")),
                                            ('attrs',
                                             ('builtins.dict',
                                              [(('builtins.str', "'x'"),
                                                ('builtins.dict',
                                                 [(('builtins.str', "'y'"),
                                                   ('builtins.tuple',
                                                    [('builtins.int', '1'),
                                                     ('builtins.tuple',
                                                      [('builtins.int', '2'),
                                                       ('builtins.int', '3')])]))]))])),
                                            ('data',
                                             ('builtins.dict',
                                              [(('builtins.str', "'v'"),
                                                ('ceos_alos2.hierarchy.Variable',
                                                 ('dims',
                                                  ('builtins.list',
                                                   [('builtins.str', "'rows'"),
                                                    ('builtins.str', "'columns'")])),
                                                 ('attrs',
                                                  ('builtins.dict',
                                                   [(('builtins.str', "'a'"),
                                                     ('builtins.tuple',
                                                      [('builtins.int', '1'), ('builtins.int', '2')]))])),
                                                 ('data',
                                                  ('ceos_alos2.array.Array',
                                                   ('fs', 'DirFileSystem', '/path/to', 'LocalFileSystem'),
                                                   ('url', ('builtins.str', "'file'")),
                                                   ('byte_ranges',
                                                    ('builtins.list',
                                                     [('builtins.tuple',
                                                       [('builtins.int', '5'), ('builtins.int', '10')]),
                                                      ('builtins.tuple',
                                                       [('builtins.int', '15'), ('builtins.int', '20')]),
                                                      ('builtins.tuple',
                                                       [('builtins.int', '25'), ('builtins.int', '30')]),
                                                      ('builtins.tuple',
                                                       [('builtins.int', '35'), ('builtins.int', '40')])])),
                                                   ('shape',
                                                    ('builtins.tuple',
                                                     [('builtins.int', '4'), ('builtins.int', '3')])),
                                                   ('dtype', ('builtins.str', "'int16'")),
                                                   ('type_code', ('builtins.str', "'IU2'")),
                                                   ('records_per_chunk', ('builtins.int', '2')),
                                                   ('chunk_offsets',
                                                    ('builtins.dict',
                                                     [(('builtins.int', '0'),
                                                       ('builtins.dict',
                                                        [(('builtins.str', "'offset'"),
                                                          ('builtins.int', '5')),
                                                         (('builtins.str', "'size'"),
                                                          ('builtins.int', '15'))])),
                                                      (('builtins.int', '1'),
                                                       ('builtins.dict',
                                                        [(('builtins.str', "'offset'"),
                                                          ('builtins.int', '25')),
                                                         (('builtins.str', "'size'"),
                                                          ('builtins.int', '15'))]))])))))),
                                               (('builtins.str', "'t'"),
                                                ('ceos_alos2.hierarchy.Variable',
                                                 ('dims', ('builtins.list', [('builtins.str', "'t'")])),
                                                 ('attrs', ('builtins.dict', [])),
                                                 ('data',
                                                  ('numpy.ndarray',
                                                   'datetime64[s]',
                                                   (2,),
                                                   '[datetime.datetime(2020, 1, 1, 0, 0), '
                                                   'datetime.datetime(2020, 1, 2, 0, 0)]')))),
                                               (('builtins.str', "'sub'"),
                                                ('ceos_alos2.hierarchy.Group',
                                                 ('path', ('builtins.str', "'/sub'")),
                                                 ('url', ('builtins.str', "'s3://bucket/data'")),
                                                 ('attrs',
                                                  ('builtins.dict',
                                                   [(('builtins.str', "'k'"),
                                                     ('builtins.list', [('builtins.int', '1')]))])),
                                                 ('data',
                                                  ('builtins.dict',
                                                   [(('builtins.str', "'w'"),
                                                     ('ceos_alos2.hierarchy.Variable',
                                                      ('dims', ('builtins.list', [('builtins.str', "'x'")])),
                                                      ('attrs', ('builtins.dict', [])),
                                                      ('data',
                                                       ('numpy.ndarray',
                                                        'float64',
                                                        (2,),
                                                        '[1.5, 2.5]'))))]))))])))),
                                          "[('mapper.root',), ('mapper.root',), ('Path.is_file', "
                                          "'4f7cfeeaf747854a0a17f4fa6b2181e08de541609edf2ad148ca93567cf73d6a/image.index'), "
                                          "('Path.read_text', "
                                          "'4f7cfeeaf747854a0a17f4fa6b2181e08de541609edf2ad148ca93567cf73d6a/image.index', "
                                          '(), {})]'),
 "read_cache/'/abs/image'/local_only/None": (('returns',
                                              ('ceos_alos2.hierarchy.Group',
                                               ('path', ('builtins.str', "'/'")),
                                               ('url', ('builtins.str', "'s3://bucket/data'")),
                                               ('attrs',
                                                ('builtins.dict',
                                                 [(('builtins.str', "'x'"),
                                                   ('builtins.dict',
                                                    [(('builtins.str', "'y'"),
                                                      ('builtins.tuple',
                                                       [('builtins.int', '1'),
                                                        ('builtins.tuple',
                                                         [('builtins.int', '2'),
                                                          ('builtins.int', '3')])]))]))])),
                                               ('data',
                                                ('builtins.dict',
                                                 [(('builtins.str', "'v'"),
                                                   ('ceos_alos2.hierarchy.Variable',
                                                    ('dims',
                                                     ('builtins.list',
                                                      [('builtins.str', "'rows'"),
                                                       ('builtins.str', "'columns'")])),
                                                    ('attrs',
                                                     ('builtins.dict',
                                                      [(('builtins.str', "'a'"),
                                                        ('builtins.tuple',
                                                         [('builtins.int', '1'), ('builtins.int', '2')]))])),
                                                    ('data',
                                                     ('ceos_alos2.array.Array',
                                                      ('fs', 'DirFileSystem', '/path/to', 'LocalFileSystem'),
                                                      ('url', ('builtins.str', "'file'")),
                                                      ('byte_ranges',
                                                       ('builtins.list',
                                                        [('builtins.tuple',
                                                          [('builtins.int', '5'), ('builtins.int', '10')]),
                                                         ('builtins.tuple',
                                                          [('builtins.int', '15'), ('builtins.int', '20')]),
                                                         ('builtins.tuple',
                                                          [('builtins.int', '25'), ('builtins.int', '30')]),
                                                         ('builtins.tuple',
                                                          [('builtins.int', '35'),
                                                           ('builtins.int', '40')])])),
                                                      ('shape',
                                                       ('builtins.tuple',
                                                        [('builtins.int', '4'), ('builtins.int', '3')])),
                                                      ('dtype', ('builtins.str', "'int16'")),
                                                      ('type_code', ('builtins.str', "'IU2'")),
                                                      ('records_per_chunk', ('builtins.int', '1024')),
                                                      ('chunk_offsets',
                                                       ('builtins.dict',
                                                        [(('builtins.int', '0'),
                                                          ('builtins.dict',
                                                           [(('builtins.str', "'offset'"),
                                                             ('builtins.int', '5')),
                                                            (('builtins.str', "'size'"),
                                                             ('builtins.int', '35'))]))])))))),
                                                  (('builtins.str', "'t'"),
                                                   ('ceos_alos2.hierarchy.Variable',
                                                    ('dims', ('builtins.list', [('builtins.str', "'t'")])),
                                                    ('attrs', ('builtins.dict', [])),
                                                    ('data',
                                                     ('numpy.ndarray',
                                                      'datetime64[s]',
                                                      (2,),
                                                      '[datetime.datetime(2020, 1, 1, 0, 0), '
                                                      'datetime.datetime(2020, 1, 2, 0, 0)]')))),
                                                  (('builtins.str', "'sub'"),
                                                   ('ceos_alos2.hierarchy.Group',
                                                    ('path', ('builtins.str', "'/sub'")),
                                                    ('url', ('builtins.str', "'s3://bucket/data'")),
                                                    ('attrs',
                                                     ('builtins.dict',
                                                      [(('builtins.str', "'k'"),
                                                        ('builtins.list', [('builtins.int', '1')]))])),
                                                    ('data',
                                                     ('builtins.dict',
                                                      [(('builtins.str', "'w'"),
                                                        ('ceos_alos2.hierarchy.Variable',
                                                         ('dims',
                                                          ('builtins.list', [('builtins.str', "'x'")])),
                                                         ('attrs', ('builtins.dict', [])),
                                                         ('data',
                                                          ('numpy.ndarray',
                                                           'float64',
                                                           (2,),
                                                           '[1.5, 2.5]'))))]))))])))),
                                             "[('mapper.root',), ('mapper.root',), ('Path.is_file', "
                                             "'4f7cfeeaf747854a0a17f4fa6b2181e08de541609edf2ad148ca93567cf73d6a/image.index'), "
                                             "('Path.read_text', "
                                             "'4f7cfeeaf747854a0a17f4fa6b2181e08de541609edf2ad148ca93567cf73d6a/image.index', "
                                             '(), {})]'),
 "read_cache/'/abs/image'/local_only/positional": (('returns',
                                                    ('ceos_alos2.hierarchy.Group',
                                                     ('path', ('builtins.str', "'/'")),
                                                     ('url', ('builtins.str', "'s3://bucket/data'")),
                                                     ('attrs',
                                                      ('builtins.dict',
                                                       [(('builtins.str', "'x'"),
                                                         ('builtins.dict',
                                                          [(('builtins.str', "'y'"),
                                                            ('builtins.tuple',
                                                             [('builtins.int', '1'),
                                                              ('builtins.tuple',
                                                               [('builtins.int', '2'),
                                                                ('builtins.int', '3')])]))]))])),
                                                     ('data',
                                                      ('builtins.dict',
                                                       [(('builtins.str', "'v'"),
                                                         ('ceos_alos2.hierarchy.Variable',
                                                          ('dims',
                                                           ('builtins.list',
                                                            [('builtins.str', "'rows'"),
                                                             ('builtins.str', "'columns'")])),
                                                          ('attrs',
                                                           ('builtins.dict',
                                                            [(('builtins.str', "'a'"),
                                                              ('builtins.tuple',
                                                               [('builtins.int', '1'),
                                                                ('builtins.int', '2')]))])),
                                                          ('data',
                                                           ('ceos_alos2.array.Array',
                                                            ('fs',
                                                             'DirFileSystem',
                                                             '/path/to',
                                                             'LocalFileSystem'),
                                                            ('url', ('builtins.str', "'file'")),
                                                            ('byte_ranges',
                                                             ('builtins.list',
                                                              [('builtins.tuple',
                                                                [('builtins.int', '5'),
                                                                 ('builtins.int', '10')]),
                                                               ('builtins.tuple',
                                                                [('builtins.int', '15'),
                                                                 ('builtins.int', '20')]),
                                                               ('builtins.tuple',
                                                                [('builtins.int', '25'),
                                                                 ('builtins.int', '30')]),
                                                               ('builtins.tuple',
                                                                [('builtins.int', '35'),
                                                                 ('builtins.int', '40')])])),
                                                            ('shape',
                                                             ('builtins.tuple',
                                                              [('builtins.int', '4'),
                                                               ('builtins.int', '3')])),
                                                            ('dtype', ('builtins.str', "'int16'")),
                                                            ('type_code', ('builtins.str', "'IU2'")),
                                                            ('records_per_chunk', ('builtins.int', '3')),
                                                            ('chunk_offsets',
                                                             ('builtins.dict',
                                                              [(('builtins.int', '0'),
                                                                ('builtins.dict',
                                                                 [(('builtins.str', "'offset'"),
                                                                   ('builtins.int', '5')),
                                                                  (('builtins.str', "'size'"),
                                                                   ('builtins.int', '25'))])),
                                                               (('builtins.int', '1'),
                                                                ('builtins.dict',
                                                                 [(('builtins.str', "'offset'"),
                                                                   ('builtins.int', '35')),
                                                                  (('builtins.str', "'size'"),
                                                                   ('builtins.int', '5'))]))])))))),
                                                        (('builtins.str', "'t'"),
                                                         ('ceos_alos2.hierarchy.Variable',
                                                          ('dims',
                                                           ('builtins.list', [('builtins.str', "'t'")])),
                                                          ('attrs', ('builtins.dict', [])),
                                                          ('data',
                                                           ('numpy.ndarray',
                                                            'datetime64[s]',
                                                            (2,),
                                                            '[datetime.datetime(2020, 1, 1, 0, 0), '
                                                            'datetime.datetime(2020, 1, 2, 0, 0)]')))),
                                                        (('builtins.str', "'sub'"),
                                                         ('ceos_alos2.hierarchy.Group',
                                                          ('path', ('builtins.str', "'/sub'")),
                                                          ('url', ('builtins.str', "'s3://bucket/data'")),
                                                          ('attrs',
                                                           ('builtins.dict',
                                                            [(('builtins.str', "'k'"),
                                                              ('builtins.list', [('builtins.int', '1')]))])),
                                                          ('data',
                                                           ('builtins.dict',
                                                            [(('builtins.str', "'w'"),
                                                              ('ceos_alos2.hierarchy.Variable',
                                                               ('dims',
                                                                ('builtins.list', [('builtins.str', "'x'")])),
                                                               ('attrs', ('builtins.dict', [])),
                                                               ('data',
                                                                ('numpy.ndarray',
                                                                 'float64',
                                                                 (2,),
                                                                 '[1.5, 2.5]'))))]))))])))),
                                                   "[('mapper.root',), ('mapper.root',), ('Path.is_file', "
                                                   "'4f7cfeeaf747854a0a17f4fa6b2181e08de541609edf2ad148ca93567cf73d6a/image.index'), "
                                                   "('Path.read_text', "
                                                   "'4f7cfeeaf747854a0a17f4fa6b2181e08de541609edf2ad148ca93567cf73d6a/image.index', "
                                                   '(), {})]'),
 "read_cache/'/abs/image'/remote_only/2": (('returns',
                                            ('ceos_alos2.hierarchy.Group',
                                             ('path', ('builtins.str', "'/'")),
                                             ('url', ('builtins.str', "'s3://bucket/data'")),
                                             ('attrs', ('builtins.dict', [])),
                                             ('data', ('builtins.dict', [])))),
                                           "[('mapper.root',), ('mapper.root',), ('Path.is_file', "
                                           "'4f7cfeeaf747854a0a17f4fa6b2181e08de541609edf2ad148ca93567cf73d6a/image.index'), "
                                           "('mapper.__contains__', '/abs/image.index'), "
                                           "('mapper.__getitem__', '/abs/image.index')]"),
 "read_cache/'/abs/image'/remote_only/None": (('returns',
                                               ('ceos_alos2.hierarchy.Group',
                                                ('path', ('builtins.str', "'/'")),
                                                ('url', ('builtins.str', "'s3://bucket/data'")),
                                                ('attrs', ('builtins.dict', [])),
                                                ('data', ('builtins.dict', [])))),
                                              "[('mapper.root',), ('mapper.root',), ('Path.is_file', "
                                              "'4f7cfeeaf747854a0a17f4fa6b2181e08de541609edf2ad148ca93567cf73d6a/image.index'), "
                                              "('mapper.__contains__', '/abs/image.index'), "
                                              "('mapper.__getitem__', '/abs/image.index')]"),
 "read_cache/'/abs/image'/remote_only/positional": (('returns',
                                                     ('ceos_alos2.hierarchy.Group',
                                                      ('path', ('builtins.str', "'/'")),
                                                      ('url', ('builtins.str', "'s3://bucket/data'")),
                                                      ('attrs', ('builtins.dict', [])),
                                                      ('data', ('builtins.dict', [])))),
                                                    "[('mapper.root',), ('mapper.root',), ('Path.is_file', "
                                                    "'4f7cfeeaf747854a0a17f4fa6b2181e08de541609edf2ad148ca93567cf73d6a/image.index'), "
                                                    "('mapper.__contains__', '/abs/image.index'), "
                                                    "('mapper.__getitem__', '/abs/image.index')]"),
 "read_cache/'/abs/image'/both/2": (('returns',
                                     ('ceos_alos2.hierarchy.Group',
                                      ('path', ('builtins.str', "'/'")),
                                      ('url', ('builtins.str', "'s3://bucket/data'")),
                                      ('attrs',
                                       ('builtins.dict',
                                        [(('builtins.str', "'x'"),
                                          ('builtins.dict',
                                           [(('builtins.str', "'y'"),
                                             ('builtins.tuple',
                                              [('builtins.int', '1'),
                                               ('builtins.tuple',
                                                [('builtins.int', '2'), ('builtins.int', '3')])]))]))])),
                                      ('data',
                                       ('builtins.dict',
                                        [(('builtins.str', "'v'"),
                                          ('ceos_alos2.hierarchy.Variable',
                                           ('dims',
                                            ('builtins.list',
                                             [('builtins.str', "'rows'"), ('builtins.str', "'columns'")])),
                                           ('attrs',
                                            ('builtins.dict',
                                             [(('builtins.str', "'a'"),
                                               ('builtins.tuple',
                                                [('builtins.int', '1'), ('builtins.int', '2')]))])),
                                           ('data',
                                            ('ceos_alos2.array.Array',
                                             ('fs', 'DirFileSystem', '/path/to', 'LocalFileSystem'),
                                             ('url', ('builtins.str', "'file'")),
                                             ('byte_ranges',
                                              ('builtins.list',
                                               [('builtins.tuple',
                                                 [('builtins.int', '5'), ('builtins.int', '10')]),
                                                ('builtins.tuple',
                                                 [('builtins.int', '15'), ('builtins.int', '20')]),
                                                ('builtins.tuple',
                                                 [('builtins.int', '25'), ('builtins.int', '30')]),
                                                ('builtins.tuple',
                                                 [('builtins.int', '35'), ('builtins.int', '40')])])),
                                             ('shape',
                                              ('builtins.tuple',
                                               [('builtins.int', '4'), ('builtins.int', '3')])),
                                             ('dtype', ('builtins.str', "'int16'")),
                                             ('type_code', ('builtins.str', "'IU2'")),
                                             ('records_per_chunk', ('builtins.int', '2')),
                                             ('chunk_offsets',
                                              ('builtins.dict',
                                               [(('builtins.int', '0'),
                                                 ('builtins.dict',
                                                  [(('builtins.str', "'offset'"), ('builtins.int', '5')),
                                                   (('builtins.str', "'size'"), ('builtins.int', '15'))])),
                                                (('builtins.int', '1'),
                                                 ('builtins.dict',
                                                  [(('builtins.str', "'offset'"), ('builtins.int', '25')),
                                                   (('builtins.str', "'size'"),
                                                    ('builtins.int', '15'))]))])))))),
                                         (('builtins.str', "'t'"),
                                          ('ceos_alos2.hierarchy.Variable',
                                           ('dims', ('builtins.list', [('builtins.str', "'t'")])),
                                           ('attrs', ('builtins.dict', [])),
                                           ('data',
                                            ('numpy.ndarray',
                                             'datetime64[s]',
                                             (2,),
                                             '[datetime.datetime(2020, 1, 1, 0, 0), datetime.datetime(2020, '
                                             '1, 2, 0, 0)]')))),
                                         (('builtins.str', "'sub'"),
                                          ('ceos_alos2.hierarchy.Group',
                                           ('path', ('builtins.str', "'/sub'")),
                                           ('url', ('builtins.str', "'s3://bucket/data'")),
                                           ('attrs',
                                            ('builtins.dict',
                                             [(('builtins.str', "'k'"),
                                               ('builtins.list', [('builtins.int', '1')]))])),
                                           ('data',
                                            ('builtins.dict',
                                             [(('builtins.str', "'w'"),
                                               ('ceos_alos2.hierarchy.Variable',
                                                ('dims', ('builtins.list', [('builtins.str', "'x'")])),
                                                ('attrs', ('builtins.dict', [])),
                                                ('data',
                                                 ('numpy.ndarray',
                                                  'float64',
                                                  (2,),
                                                  '[1.5, 2.5]'))))]))))])))),
                                    "[('mapper.root',), ('mapper.root',), ('Path.is_file', "
                                    "'4f7cfeeaf747854a0a17f4fa6b2181e08de541609edf2ad148ca93567cf73d6a/image.index'), "
                                    "('Path.read_text', "
                                    "'4f7cfeeaf747854a0a17f4fa6b2181e08de541609edf2ad148ca93567cf73d6a/image.index', "
                                    '(), {})]'),
 "read_cache/'/abs/image'/both/None": (('returns',
                                        ('ceos_alos2.hierarchy.Group',
                                         ('path', ('builtins.str', "'/'")),
                                         ('url', ('builtins.str', "'s3://bucket/data'")),
                                         ('attrs',
                                          ('builtins.dict',
                                           [(('builtins.str', "'x'"),
                                             ('builtins.dict',
                                              [(('builtins.str', "'y'"),
                                                ('builtins.tuple',
                                                 [('builtins.int', '1'),
                                                  ('builtins.tuple',
                                                   [('builtins.int', '2'), ('builtins.int', '3')])]))]))])),
                                         ('data',
                                          ('builtins.dict',
                                           [(('builtins.str', "'v'"),
                                             ('ceos_alos2.hierarchy.Variable',
                                              ('dims',
                                               ('builtins.list',
                                                [('builtins.str', "'rows'"), ('builtins.str', "'columns'")])),
                                              ('attrs',
                                               ('builtins.dict',
                                                [(('builtins.str', "'a'"),
                                                  ('builtins.tuple',
                                                   [('builtins.int', '1'), ('builtins.int', '2')]))])),
                                              ('data',
                                               ('ceos_alos2.array.Array',
                                                ('fs', 'DirFileSystem', '/path/to', 'LocalFileSystem'),
                                                ('url', ('builtins.str', "'file'")),
                                                ('byte_ranges',
                                                 ('builtins.list',
                                                  [('builtins.tuple',
                                                    [('builtins.int', '5'), ('builtins.int', '10')]),
                                                   ('builtins.tuple',
                                                    [('builtins.int', '15'), ('builtins.int', '20')]),
                                                   ('builtins.tuple',
                                                    [('builtins.int', '25'), ('builtins.int', '30')]),
                                                   ('builtins.tuple',
                                                    [('builtins.int', '35'), ('builtins.int', '40')])])),
                                                ('shape',
                                                 ('builtins.tuple',
                                                  [('builtins.int', '4'), ('builtins.int', '3')])),
                                                ('dtype', ('builtins.str', "'int16'")),
                                                ('type_code', ('builtins.str', "'IU2'")),
                                                ('records_per_chunk', ('builtins.int', '1024')),
                                                ('chunk_offsets',
                                                 ('builtins.dict',
                                                  [(('builtins.int', '0'),
                                                    ('builtins.dict',
                                                     [(('builtins.str', "'offset'"), ('builtins.int', '5')),
                                                      (('builtins.str', "'size'"),
                                                       ('builtins.int', '35'))]))])))))),
                                            (('builtins.str', "'t'"),
                                             ('ceos_alos2.hierarchy.Variable',
                                              ('dims', ('builtins.list', [('builtins.str', "'t'")])),
                                              ('attrs', ('builtins.dict', [])),
                                              ('data',
                                               ('numpy.ndarray',
                                                'datetime64[s]',
                                                (2,),
                                                '[datetime.datetime(2020, 1, 1, 0, 0), '
                                                'datetime.datetime(2020, 1, 2, 0, 0)]')))),
                                            (('builtins.str', "'sub'"),
                                             ('ceos_alos2.hierarchy.Group',
                                              ('path', ('builtins.str', "'/sub'")),
                                              ('url', ('builtins.str', "'s3://bucket/data'")),
                                              ('attrs',
                                               ('builtins.dict',
                                                [(('builtins.str', "'k'"),
                                                  ('builtins.list', [('builtins.int', '1')]))])),
                                              ('data',
                                               ('builtins.dict',
                                                [(('builtins.str', "'w'"),
                                                  ('ceos_alos2.hierarchy.Variable',
                                                   ('dims', ('builtins.list', [('builtins.str', "'x'")])),
                                                   ('attrs', ('builtins.dict', [])),
                                                   ('data',
                                                    ('numpy.ndarray',
                                                     'float64',
                                                     (2,),
                                                     '[1.5, 2.5]'))))]))))])))),
                                       "[('mapper.root',), ('mapper.root',), ('Path.is_file', "
                                       "'4f7cfeeaf747854a0a17f4fa6b2181e08de541609edf2ad148ca93567cf73d6a/image.index'), "
                                       "('Path.read_text', "
                                       "'4f7cfeeaf747854a0a17f4fa6b2181e08de541609edf2ad148ca93567cf73d6a/image.index', "
                                       '(), {})]'),
 "read_cache/'/abs/image'/both/positional": (('returns',
                                              ('ceos_alos2.hierarchy.Group',
                                               ('path', ('builtins.str', "'/'")),
                                               ('url', ('builtins.str', "'s3://bucket/data'")),
                                               ('attrs',
                                                ('builtins.dict',
                                                 [(('builtins.str', "'x'"),
                                                   ('builtins.dict',
                                                    [(('builtins.str', "'y'"),
                                                      ('builtins.tuple',
                                                       [('builtins.int', '1'),
                                                        ('builtins.tuple',
                                                         [('builtins.int', '2'),
                                                          ('builtins.int', '3')])]))]))])),
                                               ('data',
                                                ('builtins.dict',
                                                 [(('builtins.str', "'v'"),
                                                   ('ceos_alos2.hierarchy.Variable',
                                                    ('dims',
                                                     ('builtins.list',
                                                      [('builtins.str', "'rows'"),
                                                       ('builtins.str', "'columns'")])),
                                                    ('attrs',
                                                     ('builtins.dict',
                                                      [(('builtins.str', "'a'"),
                                                        ('builtins.tuple',
                                                         [('builtins.int', '1'), ('builtins.int', '2')]))])),
                                                    ('data',
                                                     ('ceos_alos2.array.Array',
                                                      ('fs', 'DirFileSystem', '/path/to', 'LocalFileSystem'),
                                                      ('url', ('builtins.str', "'file'")),
                                                      ('byte_ranges',
                                                       ('builtins.list',
                                                        [('builtins.tuple',
                                                          [('builtins.int', '5'), ('builtins.int', '10')]),
                                                         ('builtins.tuple',
                                                          [('builtins.int', '15'), ('builtins.int', '20')]),
                                                         ('builtins.tuple',
                                                          [('builtins.int', '25'), ('builtins.int', '30')]),
                                                         ('builtins.tuple',
                                                          [('builtins.int', '35'),
                                                           ('builtins.int', '40')])])),
                                                      ('shape',
                                                       ('builtins.tuple',
                                                        [('builtins.int', '4'), ('builtins.int', '3')])),
                                                      ('dtype', ('builtins.str', "'int16'")),
                                                      ('type_code', ('builtins.str', "'IU2'")),
                                                      ('records_per_chunk', ('builtins.int', '3')),
                                                      ('chunk_offsets',
                                                       ('builtins.dict',
                                                        [(('builtins.int', '0'),
                                                          ('builtins.dict',
                                                           [(('builtins.str', "'offset'"),
                                                             ('builtins.int', '5')),
                                                            (('builtins.str', "'size'"),
                                                             ('builtins.int', '25'))])),
                                                         (('builtins.int', '1'),
                                                          ('builtins.dict',
                                                           [(('builtins.str', "'offset'"),
                                                             ('builtins.int', '35')),
                                                            (('builtins.str', "'size'"),
                                                             ('builtins.int', '5'))]))])))))),
                                                  (('builtins.str', "'t'"),
                                                   ('ceos_alos2.hierarchy.Variable',
                                                    ('dims', ('builtins.list', [('builtins.str', "'t'")])),
                                                    ('attrs', ('builtins.dict', [])),
                                                    ('data',
                                                     ('numpy.ndarray',
                                                      'datetime64[s]',
                                                      (2,),
                                                      '[datetime.datetime(2020, 1, 1, 0, 0), '
                                                      'datetime.datetime(2020, 1, 2, 0, 0)]')))),
                                                  (('builtins.str', "'sub'"),
                                                   ('ceos_alos2.hierarchy.Group',
                                                    ('path', ('builtins.str', "'/sub'")),
                                                    ('url', ('builtins.str', "'s3://bucket/data'")),
                                                    ('attrs',
                                                     ('builtins.dict',
                                                      [(('builtins.str', "'k'"),
                                                        ('builtins.list', [('builtins.int', '1')]))])),
                                                    ('data',
                                                     ('builtins.dict',
                                                      [(('builtins.str', "'w'"),
                                                        ('ceos_alos2.hierarchy.Variable',
                                                         ('dims',
                                                          ('builtins.list', [('builtins.str', "'x'")])),
                                                         ('attrs', ('builtins.dict', [])),
                                                         ('data',
                                                          ('numpy.ndarray',
                                                           'float64',
                                                           (2,),
                                                           '[1.5, 2.5]'))))]))))])))),
                                             "[('mapper.root',), ('mapper.root',), ('Path.is_file', "
                                             "'4f7cfeeaf747854a0a17f4fa6b2181e08de541609edf2ad148ca93567cf73d6a/image.index'), "
                                             "('Path.read_text', "
                                             "'4f7cfeeaf747854a0a17f4fa6b2181e08de541609edf2ad148ca93567cf73d6a/image.index', "
                                             '(), {})]'),
 "read_cache/'/abs/image'/local_invalid_remote_valid/2": (('raises',
                                                           'ceos_alos2.sar_image.caching.CachingError',
                                                           'invalid or incomplete cache file'),
                                                          "[('mapper.root',), ('mapper.root',), "
                                                          "('Path.is_file', "
                                                          "'4f7cfeeaf747854a0a17f4fa6b2181e08de541609edf2ad148ca93567cf73d6a/image.index'), "
                                                          "('Path.read_text', "
                                                          "'4f7cfeeaf747854a0a17f4fa6b2181e08de541609edf2ad148ca93567cf73d6a/image.index', "
                                                          '(), {})]'),
 "read_cache/'/abs/image'/local_invalid_remote_valid/None": (('raises',
                                                              'ceos_alos2.sar_image.caching.CachingError',
                                                              'invalid or incomplete cache file'),
                                                             "[('mapper.root',), ('mapper.root',), "
                                                             "('Path.is_file', "
                                                             "'4f7cfeeaf747854a0a17f4fa6b2181e08de541609edf2ad148ca93567cf73d6a/image.index'), "
                                                             "('Path.read_text', "
                                                             "'4f7cfeeaf747854a0a17f4fa6b2181e08de541609edf2ad148ca93567cf73d6a/image.index', "
                                                             '(), {})]'),
 "read_cache/'/abs/image'/local_invalid_remote_valid/positional": (('raises',
                                                                    'ceos_alos2.sar_image.caching.CachingError',
                                                                    'invalid or incomplete cache file'),
                                                                   "[('mapper.root',), ('mapper.root',), "
                                                                   "('Path.is_file', "
                                                                   "'4f7cfeeaf747854a0a17f4fa6b2181e08de541609edf2ad148ca93567cf73d6a/image.index'), "
                                                                   "('Path.read_text', "
                                                                   "'4f7cfeeaf747854a0a17f4fa6b2181e08de541609edf2ad148ca93567cf73d6a/image.index', "
                                                                   '(), {})]'),
 "read_cache/'/abs/image'/local_empty_remote_valid/2": (('raises',
                                                         'ceos_alos2.sar_image.caching.CachingError',
                                                         'invalid or incomplete cache file'),
                                                        "[('mapper.root',), ('mapper.root',), "
                                                        "('Path.is_file', "
                                                        "'4f7cfeeaf747854a0a17f4fa6b2181e08de541609edf2ad148ca93567cf73d6a/image.index'), "
                                                        "('Path.read_text', "
                                                        "'4f7cfeeaf747854a0a17f4fa6b2181e08de541609edf2ad148ca93567cf73d6a/image.index', "
                                                        '(), {})]'),
 "read_cache/'/abs/image'/local_empty_remote_valid/None": (('raises',
                                                            'ceos_alos2.sar_image.caching.CachingError',
                                                            'invalid or incomplete cache file'),
                                                           "[('mapper.root',), ('mapper.root',), "
                                                           "('Path.is_file', "
                                                           "'4f7cfeeaf747854a0a17f4fa6b2181e08de541609edf2ad148ca93567cf73d6a/image.index'), "
                                                           "('Path.read_text', "
                                                           "'4f7cfeeaf747854a0a17f4fa6b2181e08de541609edf2ad148ca93567cf73d6a/image.index', "
                                                           '(), {})]'),
 "read_cache/'/abs/image'/local_empty_remote_valid/positional": (('raises',
                                                                  'ceos_alos2.sar_image.caching.CachingError',
                                                                  'invalid or incomplete cache file'),
                                                                 "[('mapper.root',), ('mapper.root',), "
                                                                 "('Path.is_file', "
                                                                 "'4f7cfeeaf747854a0a17f4fa6b2181e08de541609edf2ad148ca93567cf73d6a/image.index'), "
                                                                 "('Path.read_text', "
                                                                 "'4f7cfeeaf747854a0a17f4fa6b2181e08de541609edf2ad148ca93567cf73d6a/image.index', "
                                                                 '(), {})]'),
 "read_cache/'/abs/image'/remote_invalid/2": (('raises',
                                               'ceos_alos2.sar_image.caching.CachingError',
                                               'invalid or incomplete cache file'),
                                              "[('mapper.root',), ('mapper.root',), ('Path.is_file', "
                                              "'4f7cfeeaf747854a0a17f4fa6b2181e08de541609edf2ad148ca93567cf73d6a/image.index'), "
                                              "('mapper.__contains__', '/abs/image.index'), "
                                              "('mapper.__getitem__', '/abs/image.index')]"),
 "read_cache/'/abs/image'/remote_invalid/None": (('raises',
                                                  'ceos_alos2.sar_image.caching.CachingError',
                                                  'invalid or incomplete cache file'),
                                                 "[('mapper.root',), ('mapper.root',), ('Path.is_file', "
                                                 "'4f7cfeeaf747854a0a17f4fa6b2181e08de541609edf2ad148ca93567cf73d6a/image.index'), "
                                                 "('mapper.__contains__', '/abs/image.index'), "
                                                 "('mapper.__getitem__', '/abs/image.index')]"),
 "read_cache/'/abs/image'/remote_invalid/positional": (('raises',
                                                        'ceos_alos2.sar_image.caching.CachingError',
                                                        'invalid or incomplete cache file'),
                                                       "[('mapper.root',), ('mapper.root',), "
                                                       "('Path.is_file', "
                                                       "'4f7cfeeaf747854a0a17f4fa6b2181e08de541609edf2ad148ca93567cf73d6a/image.index'), "
                                                       "('mapper.__contains__', '/abs/image.index'), "
                                                       "('mapper.__getitem__', '/abs/image.index')]"),
 "read_cache/'/abs/image'/remote_empty/2": (('raises',
                                             'ceos_alos2.sar_image.caching.CachingError',
                                             'invalid or incomplete cache file'),
                                            "[('mapper.root',), ('mapper.root',), ('Path.is_file', "
                                            "'4f7cfeeaf747854a0a17f4fa6b2181e08de541609edf2ad148ca93567cf73d6a/image.index'), "
                                            "('mapper.__contains__', '/abs/image.index'), "
                                            "('mapper.__getitem__', '/abs/image.index')]"),
 "read_cache/'/abs/image'/remote_empty/None": (('raises',
                                                'ceos_alos2.sar_image.caching.CachingError',
                                                'invalid or incomplete cache file'),
                                               "[('mapper.root',), ('mapper.root',), ('Path.is_file', "
                                               "'4f7cfeeaf747854a0a17f4fa6b2181e08de541609edf2ad148ca93567cf73d6a/image.index'), "
                                               "('mapper.__contains__', '/abs/image.index'), "
                                               "('mapper.__getitem__', '/abs/image.index')]"),
 "read_cache/'/abs/image'/remote_empty/positional": (('raises',
                                                      'ceos_alos2.sar_image.caching.CachingError',
                                                      'invalid or incomplete cache file'),
                                                     "[('mapper.root',), ('mapper.root',), ('Path.is_file', "
                                                     "'4f7cfeeaf747854a0a17f4fa6b2181e08de541609edf2ad148ca93567cf73d6a/image.index'), "
                                                     "('mapper.__contains__', '/abs/image.index'), "
                                                     "('mapper.__getitem__', '/abs/image.index')]"),
 "read_cache/'/abs/image'/remote_not_utf8/2": (('raises',
                                                'builtins.UnicodeDecodeError',
                                                "'utf-8' codec can't decode byte 0xff in position 0: invalid "
                                                'start byte'),
                                               "[('mapper.root',), ('mapper.root',), ('Path.is_file', "
                                               "'4f7cfeeaf747854a0a17f4fa6b2181e08de541609edf2ad148ca93567cf73d6a/image.index'), "
                                               "('mapper.__contains__', '/abs/image.index'), "
                                               "('mapper.__getitem__', '/abs/image.index')]"),
 "read_cache/'/abs/image'/remote_not_utf8/None": (('raises',
                                                   'builtins.UnicodeDecodeError',
                                                   "'utf-8' codec can't decode byte 0xff in position 0: "
                                                   'invalid start byte'),
                                                  "[('mapper.root',), ('mapper.root',), ('Path.is_file', "
                                                  "'4f7cfeeaf747854a0a17f4fa6b2181e08de541609edf2ad148ca93567cf73d6a/image.index'), "
                                                  "('mapper.__contains__', '/abs/image.index'), "
                                                  "('mapper.__getitem__', '/abs/image.index')]"),
 "read_cache/'/abs/image'/remote_not_utf8/positional": (('raises',
                                                         'builtins.UnicodeDecodeError',
                                                         "'utf-8' codec can't decode byte 0xff in position "
                                                         '0: invalid start byte'),
                                                        "[('mapper.root',), ('mapper.root',), "
                                                        "('Path.is_file', "
                                                        "'4f7cfeeaf747854a0a17f4fa6b2181e08de541609edf2ad148ca93567cf73d6a/image.index'), "
                                                        "('mapper.__contains__', '/abs/image.index'), "
                                                        "('mapper.__getitem__', '/abs/image.index')]"),
 "read_cache/'/abs/image'/remote_str/2": (('raises',
                                           'builtins.AttributeError',
                                           "'str' object has no attribute 'decode'"),
                                          "[('mapper.root',), ('mapper.root',), ('Path.is_file', "
                                          "'4f7cfeeaf747854a0a17f4fa6b2181e08de541609edf2ad148ca93567cf73d6a/image.index'), "
                                          "('mapper.__contains__', '/abs/image.index'), "
                                          "('mapper.__getitem__', '/abs/image.index')]"),
 "read_cache/'/abs/image'/remote_str/None": (('raises',
                                              'builtins.AttributeError',
                                              "'str' object has no attribute 'decode'"),
                                             "[('mapper.root',), ('mapper.root',), ('Path.is_file', "
                                             "'4f7cfeeaf747854a0a17f4fa6b2181e08de541609edf2ad148ca93567cf73d6a/image.index'), "
                                             "('mapper.__contains__', '/abs/image.index'), "
                                             "('mapper.__getitem__', '/abs/image.index')]"),
 "read_cache/'/abs/image'/remote_str/positional": (('raises',
                                                    'builtins.AttributeError',
                                                    "'str' object has no attribute 'decode'"),
                                                   "[('mapper.root',), ('mapper.root',), ('Path.is_file', "
                                                   "'4f7cfeeaf747854a0a17f4fa6b2181e08de541609edf2ad148ca93567cf73d6a/image.index'), "
                                                   "('mapper.__contains__', '/abs/image.index'), "
                                                   "('mapper.__getitem__', '/abs/image.index')]"),
 "read_cache/'/abs/image'/remote_under_basename_only/2": (('raises',
                                                           'ceos_alos2.sar_image.caching.CachingError',
                                                           'no cache found for /abs/image'),
                                                          "[('mapper.root',), ('mapper.root',), "
                                                          "('Path.is_file', "
                                                          "'4f7cfeeaf747854a0a17f4fa6b2181e08de541609edf2ad148ca93567cf73d6a/image.index'), "
                                                          "('mapper.__contains__', '/abs/image.index')]"),
 "read_cache/'/abs/image'/remote_under_basename_only/None": (('raises',
                                                              'ceos_alos2.sar_image.caching.CachingError',
                                                              'no cache found for /abs/image'),
                                                             "[('mapper.root',), ('mapper.root',), "
                                                             "('Path.is_file', "
                                                             "'4f7cfeeaf747854a0a17f4fa6b2181e08de541609edf2ad148ca93567cf73d6a/image.index'), "
                                                             "('mapper.__contains__', '/abs/image.index')]"),
 "read_cache/'/abs/image'/remote_under_basename_only/positional": (('raises',
                                                                    'ceos_alos2.sar_image.caching.CachingError',
                                                                    'no cache found for /abs/image'),
                                                                   "[('mapper.root',), ('mapper.root',), "
                                                                   "('Path.is_file', "
                                                                   "'4f7cfeeaf747854a0a17f4fa6b2181e08de541609edf2ad148ca93567cf73d6a/image.index'), "
                                                                   "('mapper.__contains__', "
                                                                   "'/abs/image.index')]"),
 "read_cache/'dir/'/none/2": (('raises',
                               'ceos_alos2.sar_image.caching.CachingError',
                               'no cache found for dir/'),
                              "[('mapper.root',), ('mapper.root',), ('Path.is_file', "
                              "'4f7cfeeaf747854a0a17f4fa6b2181e08de541609edf2ad148ca93567cf73d6a/.index'), "
                              "('mapper.__contains__', 'dir/.index')]"),
 "read_cache/'dir/'/none/None": (('raises',
                                  'ceos_alos2.sar_image.caching.CachingError',
                                  'no cache found for dir/'),
                                 "[('mapper.root',), ('mapper.root',), ('Path.is_file', "
                                 "'4f7cfeeaf747854a0a17f4fa6b2181e08de541609edf2ad148ca93567cf73d6a/.index'), "
                                 "('mapper.__contains__', 'dir/.index')]"),
 "read_cache/'dir/'/none/positional": (('raises',
                                        'ceos_alos2.sar_image.caching.CachingError',
                                        'no cache found for dir/'),
                                       "[('mapper.root',), ('mapper.root',), ('Path.is_file', "
                                       "'4f7cfeeaf747854a0a17f4fa6b2181e08de541609edf2ad148ca93567cf73d6a/.index'), "
                                       "('mapper.__contains__', 'dir/.index')]"),
 "read_cache/'dir/'/local_only/2": (('returns',
                                     ('ceos_alos2.hierarchy.Group',
                                      ('path', ('builtins.str', "'/'")),
                                      ('url', ('builtins.str', "'s3://bucket/data'")),
                                      ('attrs',
                                       ('builtins.dict',
                                        [(('builtins.str', "'x'"),
                                          ('builtins.dict',
                                           [(('builtins.str', "'y'"),
                                             ('builtins.tuple',
                                              [('builtins.int', '1'),
                                               ('builtins.tuple',
                                                [('builtins.int', '2'), ('builtins.int', '3')])]))]))])),
                                      ('data',
                                       ('builtins.dict',
                                        [(('builtins.str', "'v'"),
                                          ('ceos_alos2.hierarchy.Variable',
                                           ('dims',
                                            ('builtins.list',
                                             [('builtins.str', "'rows'"), ('builtins.str', "'columns'")])),
                                           ('attrs',
                                            ('builtins.dict',
                                             [(('builtins.str', "'a'"),
                                               ('builtins.tuple',
                                                [('builtins.int', '1'), ('builtins.int', '2')]))])),
                                           ('data',
                                            ('ceos_alos2.array.Array',
                                             ('fs', 'DirFileSystem', '/path/to', 'LocalFileSystem'),
                                             ('url', ('builtins.str', "'file'")),
                                             ('byte_ranges',
                                              ('builtins.list',
                                               [('builtins.tuple',
                                                 [('builtins.int', '5'), ('builtins.int', '10')]),
                                                ('builtins.tuple',
                                                 [('builtins.int', '15'), ('builtins.int', '20')]),
                                                ('builtins.tuple',
                                                 [('builtins.int', '25'), ('builtins.int', '30')]),
                                                ('builtins.tuple',
                                                 [('builtins.int', '35'), ('builtins.int', '40')])])),
                                             ('shape',
                                              ('builtins.tuple',
                                               [('builtins.int', '4'), ('builtins.int', '3')])),
                                             ('dtype', ('builtins.str', "'int16'")),
                                             ('type_code', ('builtins.str', "'IU2'")),
                                             ('records_per_chunk', ('builtins.int', '2')),
                                             ('chunk_offsets',
                                              ('builtins.dict',
                                               [(('builtins.int', '0'),
                                                 ('builtins.dict',
                                                  [(('builtins.str', "'offset'"), ('builtins.int', '5')),
                                                   (('builtins.str', "'size'"), ('builtins.int', '15'))])),
                                                (('builtins.int', '1'),
                                                 ('builtins.dict',
                                                  [(('builtins.str', "'offset'"), ('builtins.int', '25')),
                                                   (('builtins.str', "'size'"),
                                                    ('builtins.int', '15'))]))])))))),
                                         (('builtins.str', "'t'"),
                                          ('ceos_alos2.hierarchy.Variable',
                                           ('dims', ('builtins.list', [('builtins.str', "'t'")])),
                                           ('attrs', ('builtins.dict', [])),
                                           ('data',
                                            ('numpy.ndarray',
                                             'datetime64[s]',
                                             (2,),
                                             '[datetime.datetime(2020, 1, 1, 0, 0), datetime.datetime(2020, '
                                             '1, 2, 0, 0)]')))),
                                         (('builtins.str', "'sub'"),
                                          ('ceos_alos2.hierarchy.Group',
                                           ('path', ('builtins.str', "'/sub'")),
                                           ('url', ('builtins.str', "'s3://bucket/data'")),
                                           ('attrs',
                                            ('builtins.dict',
                                             [(('builtins.str', "'k'"),
                                               ('builtins.list', [('builtins.int', '1')]))])),
                                           ('data',
                                            ('builtins.dict',
                                             [(('builtins.str', "'w'"),
                                               ('ceos_alos2.hierarchy.Variable',
                                                ('dims', ('builtins.list', [('builtins.str', "'x'")])),
                                                ('attrs', ('builtins.dict', [])),
                                                ('data',
                                                 ('numpy.ndarray',
                                                  'float64',
                                                  (2,),
                                                  '[1.5, 2.5]'))))]))))])))),
                                    "[('mapper.root',), ('mapper.root',), ('Path.is_file', "
                                    "'4f7cfeeaf747854a0a17f4fa6b2181e08de541609edf2ad148ca93567cf73d6a/.index'), "
                                    "('Path.read_text', "
                                    "'4f7cfeeaf747854a0a17f4fa6b2181e08de541609edf2ad148ca93567cf73d6a/.index', "
                                    '(), {})]'),
 "read_cache/'dir/'/local_only/None": (('returns',
                                        ('ceos_alos2.hierarchy.Group',
                                         ('path', ('builtins.str', "'/'")),
                                         ('url', ('builtins.str', "'s3://bucket/data'")),
                                         ('attrs',
                                          ('builtins.dict',
                                           [(('builtins.str', "'x'"),
                                             ('builtins.dict',
                                              [(('builtins.str', "'y'"),
                                                ('builtins.tuple',
                                                 [('builtins.int', '1'),
                                                  ('builtins.tuple',
                                                   [('builtins.int', '2'), ('builtins.int', '3')])]))]))])),
                                         ('data',
                                          ('builtins.dict',
                                           [(('builtins.str', "'v'"),
                                             ('ceos_alos2.hierarchy.Variable',
                                              ('dims',
                                               ('builtins.list',
                                                [('builtins.str', "'rows'"), ('builtins.str', "'columns'")])),
                                              ('attrs',
                                               ('builtins.dict',
                                                [(('builtins.str', "'a'"),
                                                  ('builtins.tuple',
                                                   [('builtins.int', '1'), ('builtins.int', '2')]))])),
                                              ('data',
                                               ('ceos_alos2.array.Array',
                                                ('fs', 'DirFileSystem', '/path/to', 'LocalFileSystem'),
                                                ('url', ('builtins.str', "'file'")),
                                                ('byte_ranges',
                                                 ('builtins.list',
                                                  [('builtins.tuple',
                                                    [('builtins.int', '5'), ('builtins.int', '10')]),
                                                   ('builtins.tuple',
                                                    [('builtins.int', '15'), ('builtins.int', '20')]),
                                                   ('builtins.tuple',
                                                    [('builtins.int', '25'), ('builtins.int', '30')]),
                                                   ('builtins.tuple',
                                                    [('builtins.int', '35'), ('builtins.int', '40')])])),
                                                ('shape',
                                                 ('builtins.tuple',
                                                  [('builtins.int', '4'), ('builtins.int', '3')])),
                                                ('dtype', ('builtins.str', "'int16'")),
                                                ('type_code', ('builtins.str', "'IU2'")),
                                                ('records_per_chunk', ('builtins.int', '1024')),
                                                ('chunk_offsets',
                                                 ('builtins.dict',
                                                  [(('builtins.int', '0'),
                                                    ('builtins.dict',
                                                     [(('builtins.str', "'offset'"), ('builtins.int', '5')),
                                                      (('builtins.str', "'size'"),
                                                       ('builtins.int', '35'))]))])))))),
                                            (('builtins.str', "'t'"),
                                             ('ceos_alos2.hierarchy.Variable',
                                              ('dims', ('builtins.list', [('builtins.str', "'t'")])),
                                              ('attrs', ('builtins.dict', [])),
                                              ('data',
                                               ('numpy.ndarray',
                                                'datetime64[s]',
                                                (2,),
                                                '[datetime.datetime(2020, 1, 1, 0, 0), '
                                                'datetime.datetime(2020, 1, 2, 0, 0)]')))),
                                            (('builtins.str', "'sub'"),
                                             ('ceos_alos2.hierarchy.Group',
                                              ('path', ('builtins.str', "'/sub'")),
                                              ('url', ('builtins.str', "'s3://bucket/data'")),
                                              ('attrs',
                                               ('builtins.dict',
                                                [(('builtins.str', "'k'"),
                                                  ('builtins.list', [('builtins.int', '1')]))])),
                                              ('data',
                                               ('builtins.dict',
                                                [(('builtins.str', "'w'"),
                                                  ('ceos_alos2.hierarchy.Variable',
                                                   ('dims', ('builtins.list', [('builtins.str', "'x'")])),
                                                   ('attrs', ('builtins.dict', [])),
                                                   ('data',
                                                    ('numpy.ndarray',
                                                     'float64',
                                                     (2,),
                                                     '[1.5, 2.5]'))))]))))])))),
                                       "[('mapper.root',), ('mapper.root',), ('Path.is_file', "
                                       "'4f7cfeeaf747854a0a17f4fa6b2181e08de541609edf2ad148ca93567cf73d6a/.index'), "
                                       "('Path.read_text', "
                                       "'4f7cfeeaf747854a0a17f4fa6b2181e08de541609edf2ad148ca93567cf73d6a/.index', "
                                       '(), {})]'),
 "read_cache/'dir/'/local_only/positional": (('returns',
                                              ('ceos_alos2.hierarchy.Group',
                                               ('path', ('builtins.str', "'/'")),
                                               ('url', ('builtins.str', "'s3://bucket/data'")),
                                               ('attrs',
                                                ('builtins.dict',
                                                 [(('builtins.str', "'x'"),
                                                   ('builtins.dict',
                                                    [(('builtins.str', "'y'"),
                                                      ('builtins.tuple',
                                                       [('builtins.int', '1'),
                                                        ('builtins.tuple',
                                                         [('builtins.int', '2'),
                                                          ('builtins.int', '3')])]))]))])),
                                               ('data',
                                                ('builtins.dict',
                                                 [(('builtins.str', "'v'"),
                                                   ('ceos_alos2.hierarchy.Variable',
                                                    ('dims',
                                                     ('builtins.list',
                                                      [('builtins.str', "'rows'"),
                                                       ('builtins.str', "'columns'")])),
                                                    ('attrs',
                                                     ('builtins.dict',
                                                      [(('builtins.str', "'a'"),
                                                        ('builtins.tuple',
                                                         [('builtins.int', '1'), ('builtins.int', '2')]))])),
                                                    ('data',
                                                     ('ceos_alos2.array.Array',
                                                      ('fs', 'DirFileSystem', '/path/to', 'LocalFileSystem'),
                                                      ('url', ('builtins.str', "'file'")),
                                                      ('byte_ranges',
                                                       ('builtins.list',
                                                        [('builtins.tuple',
                                                          [('builtins.int', '5'), ('builtins.int', '10')]),
                                                         ('builtins.tuple',
                                                          [('builtins.int', '15'), ('builtins.int', '20')]),
                                                         ('builtins.tuple',
                                                          [('builtins.int', '25'), ('builtins.int', '30')]),
                                                         ('builtins.tuple',
                                                          [('builtins.int', '35'),
                                                           ('builtins.int', '40')])])),
                                                      ('shape',
                                                       ('builtins.tuple',
                                                        [('builtins.int', '4'), ('builtins.int', '3')])),
                                                      ('dtype', ('builtins.str', "'int16'")),
                                                      ('type_code', ('builtins.str', "'IU2'")),
                                                      ('records_per_chunk', ('builtins.int', '3')),
                                                      ('chunk_offsets',
                                                       ('builtins.dict',
                                                        [(('builtins.int', '0'),
                                                          ('builtins.dict',
                                                           [(('builtins.str', "'offset'"),
                                                             ('builtins.int', '5')),
                                                            (('builtins.str', "'size'"),
                                                             ('builtins.int', '25'))])),
                                                         (('builtins.int', '1'),
                                                          ('builtins.dict',
                                                           [(('builtins.str', "'offset'"),
                                                             ('builtins.int', '35')),
                                                            (('builtins.str', "'size'"),
                                                             ('builtins.int', '5'))]))])))))),
                                                  (('builtins.str', "'t'"),
                                                   ('ceos_alos2.hierarchy.Variable',
                                                    ('dims', ('builtins.list', [('builtins.str', "'t'")])),
                                                    ('attrs', ('builtins.dict', [])),
                                                    ('data',
                                                     ('numpy.ndarray',
                                                      'datetime64[s]',
                                                      (2,),
                                                      '[datetime.datetime(2020, 1, 1, 0, 0), '
                                                      'datetime.datetime(2020, 1, 2, 0, 0)]')))),
                                                  (('builtins.str', "'sub'"),
                                                   ('ceos_alos2.hierarchy.Group',
                                                    ('path', ('builtins.str', "'/sub'")),
                                                    ('url', ('builtins.str', "'s3://bucket/data'")),
                                                    ('attrs',
                                                     ('builtins.dict',
                                                      [(('builtins.str', "'k'"),
                                                        ('builtins.list', [('builtins.int', '1')]))])),
                                                    ('data',
                                                     ('builtins.dict',
                                                      [(('builtins.str', "'w'"),
                                                        ('ceos_alos2.hierarchy.Variable',
                                                         ('dims',
                                                          ('builtins.list', [('builtins.str', "'x'")])),
                                                         ('attrs', ('builtins.dict', [])),
                                                         ('data',
                                                          ('numpy.ndarray',
                                                           'float64',
                                                           (2,),
                                                           '[1.5, 2.5]'))))]))))])))),
                                             "[('mapper.root',), ('mapper.root',), ('Path.is_file', "
                                             "'4f7cfeeaf747854a0a17f4fa6b2181e08de541609edf2ad148ca93567cf73d6a/.index'), "
                                             "('Path.read_text', "
                                             "'4f7cfeeaf747854a0a17f4fa6b2181e08de541609edf2ad148ca93567cf73d6a/.index', "
                                             '(), {})]'),
 "read_cache/'dir/'/remote_only/2": (('returns',
                                      ('ceos_alos2.hierarchy.Group',
                                       ('path', ('builtins.str', "'/'")),
                                       ('url', ('builtins.str', "'s3://bucket/data'")),
                                       ('attrs', ('builtins.dict', [])),
                                       ('data', ('builtins.dict', [])))),
                                     "[('mapper.root',), ('mapper.root',), ('Path.is_file', "
                                     "'4f7cfeeaf747854a0a17f4fa6b2181e08de541609edf2ad148ca93567cf73d6a/.index'), "
                                     "('mapper.__contains__', 'dir/.index'), ('mapper.__getitem__', "
                                     "'dir/.index')]"),
 "read_cache/'dir/'/remote_only/None": (('returns',
                                         ('ceos_alos2.hierarchy.Group',
                                          ('path', ('builtins.str', "'/'")),
                                          ('url', ('builtins.str', "'s3://bucket/data'")),
                                          ('attrs', ('builtins.dict', [])),
                                          ('data', ('builtins.dict', [])))),
                                        "[('mapper.root',), ('mapper.root',), ('Path.is_file', "
                                        "'4f7cfeeaf747854a0a17f4fa6b2181e08de541609edf2ad148ca93567cf73d6a/.index'), "
                                        "('mapper.__contains__', 'dir/.index'), ('mapper.__getitem__', "
                                        "'dir/.index')]"),
 "read_cache/'dir/'/remote_only/positional": (('returns',
                                               ('ceos_alos2.hierarchy.Group',
                                                ('path', ('builtins.str', "'/'")),
                                                ('url', ('builtins.str', "'s3://bucket/data'")),
                                                ('attrs', ('builtins.dict', [])),
                                                ('data', ('builtins.dict', [])))),
                                              "[('mapper.root',), ('mapper.root',), ('Path.is_file', "
                                              "'4f7cfeeaf747854a0a17f4fa6b2181e08de541609edf2ad148ca93567cf73d6a/.index'), "
                                              "('mapper.__contains__', 'dir/.index'), ('mapper.__getitem__', "
                                              "'dir/.index')]"),
 "read_cache/'dir/'/both/2": (('returns',
                               ('ceos_alos2.hierarchy.Group',
                                ('path', ('builtins.str', "'/'")),
                                ('url', ('builtins.str', "'s3://bucket/data'")),
                                ('attrs',
                                 ('builtins.dict',
                                  [(('builtins.str', "'x'"),
                                    ('builtins.dict',
                                     [(('builtins.str', "'y'"),
                                       ('builtins.tuple',
                                        [('builtins.int', '1'),
                                         ('builtins.tuple',
                                          [('builtins.int', '2'), ('builtins.int', '3')])]))]))])),
                                ('data',
                                 ('builtins.dict',
                                  [(('builtins.str', "'v'"),
                                    ('ceos_alos2.hierarchy.Variable',
                                     ('dims',
                                      ('builtins.list',
                                       [('builtins.str', "'rows'"), ('builtins.str', "'columns'")])),
                                     ('attrs',
                                      ('builtins.dict',
                                       [(('builtins.str', "'a'"),
                                         ('builtins.tuple',
                                          [('builtins.int', '1'), ('builtins.int', '2')]))])),
                                     ('data',
                                      ('ceos_alos2.array.Array',
                                       ('fs', 'DirFileSystem', '/path/to', 'LocalFileSystem'),
                                       ('url', ('builtins.str', "'file'")),
                                       ('byte_ranges',
                                        ('builtins.list',
                                         [('builtins.tuple', [('builtins.int', '5'), ('builtins.int', '10')]),
                                          ('builtins.tuple',
                                           [('builtins.int', '15'), ('builtins.int', '20')]),
                                          ('builtins.tuple',
                                           [('builtins.int', '25'), ('builtins.int', '30')]),
                                          ('builtins.tuple',
                                           [('builtins.int', '35'), ('builtins.int', '40')])])),
                                       ('shape',
                                        ('builtins.tuple', [('builtins.int', '4'), ('builtins.int', '3')])),
                                       ('dtype', ('builtins.str', "'int16'")),
                                       ('type_code', ('builtins.str', "'IU2'")),
                                       ('records_per_chunk', ('builtins.int', '2')),
                                       ('chunk_offsets',
                                        ('builtins.dict',
                                         [(('builtins.int', '0'),
                                           ('builtins.dict',
                                            [(('builtins.str', "'offset'"), ('builtins.int', '5')),
                                             (('builtins.str', "'size'"), ('builtins.int', '15'))])),
                                          (('builtins.int', '1'),
                                           ('builtins.dict',
                                            [(('builtins.str', "'offset'"), ('builtins.int', '25')),
                                             (('builtins.str', "'size'"), ('builtins.int', '15'))]))])))))),
                                   (('builtins.str', "'t'"),
                                    ('ceos_alos2.hierarchy.Variable',
                                     ('dims', ('builtins.list', [('builtins.str', "'t'")])),
                                     ('attrs', ('builtins.dict', [])),
                                     ('data',
                                      ('numpy.ndarray',
                                       'datetime64[s]',
                                       (2,),
                                       '[datetime.datetime(2020, 1, 1, 0, 0), datetime.datetime(2020, 1, 2, '
                                       '0, 0)]')))),
                                   (('builtins.str', "'sub'"),
                                    ('ceos_alos2.hierarchy.Group',
                                     ('path', ('builtins.str', "'/sub'")),
                                     ('url', ('builtins.str', "'s3://bucket/data'")),
                                     ('attrs',
                                      ('builtins.dict',
                                       [(('builtins.str', "'k'"),
                                         ('builtins.list', [('builtins.int', '1')]))])),
                                     ('data',
                                      ('builtins.dict',
                                       [(('builtins.str', "'w'"),
                                         ('ceos_alos2.hierarchy.Variable',
                                          ('dims', ('builtins.list', [('builtins.str', "'x'")])),
                                          ('attrs', ('builtins.dict', [])),
                                          ('data',
                                           ('numpy.ndarray', 'float64', (2,), '[1.5, 2.5]'))))]))))])))),
                              "[('mapper.root',), ('mapper.root',), ('Path.is_file', "
                              "'4f7cfeeaf747854a0a17f4fa6b2181e08de541609edf2ad148ca93567cf73d6a/.index'), "
                              "('Path.read_text', "
                              "'4f7cfeeaf747854a0a17f4fa6b2181e08de541609edf2ad148ca93567cf73d6a/.index', "
                              '(), {})]'),
 "read_cache/'dir/'/both/None": (('returns',
                                  ('ceos_alos2.hierarchy.Group',
                                   ('path', ('builtins.str', "'/'")),
                                   ('url', ('builtins.str', "'s3://bucket/data'")),
                                   ('attrs',
                                    ('builtins.dict',
                                     [(('builtins.str', "'x'"),
                                       ('builtins.dict',
                                        [(('builtins.str', "'y'"),
                                          ('builtins.tuple',
                                           [('builtins.int', '1'),
                                            ('builtins.tuple',
                                             [('builtins.int', '2'), ('builtins.int', '3')])]))]))])),
                                   ('data',
                                    ('builtins.dict',
                                     [(('builtins.str', "'v'"),
                                       ('ceos_alos2.hierarchy.Variable',
                                        ('dims',
                                         ('builtins.list',
                                          [('builtins.str', "'rows'"), ('builtins.str', "'columns'")])),
                                        ('attrs',
                                         ('builtins.dict',
                                          [(('builtins.str', "'a'"),
                                            ('builtins.tuple',
                                             [('builtins.int', '1'), ('builtins.int', '2')]))])),
                                        ('data',
                                         ('ceos_alos2.array.Array',
                                          ('fs', 'DirFileSystem', '/path/to', 'LocalFileSystem'),
                                          ('url', ('builtins.str', "'file'")),
                                          ('byte_ranges',
                                           ('builtins.list',
                                            [('builtins.tuple',
                                              [('builtins.int', '5'), ('builtins.int', '10')]),
                                             ('builtins.tuple',
                                              [('builtins.int', '15'), ('builtins.int', '20')]),
                                             ('builtins.tuple',
                                              [('builtins.int', '25'), ('builtins.int', '30')]),
                                             ('builtins.tuple',
                                              [('builtins.int', '35'), ('builtins.int', '40')])])),
                                          ('shape',
                                           ('builtins.tuple',
                                            [('builtins.int', '4'), ('builtins.int', '3')])),
                                          ('dtype', ('builtins.str', "'int16'")),
                                          ('type_code', ('builtins.str', "'IU2'")),
                                          ('records_per_chunk', ('builtins.int', '1024')),
                                          ('chunk_offsets',
                                           ('builtins.dict',
                                            [(('builtins.int', '0'),
                                              ('builtins.dict',
                                               [(('builtins.str', "'offset'"), ('builtins.int', '5')),
                                                (('builtins.str', "'size'"),
                                                 ('builtins.int', '35'))]))])))))),
                                      (('builtins.str', "'t'"),
                                       ('ceos_alos2.hierarchy.Variable',
                                        ('dims', ('builtins.list', [('builtins.str', "'t'")])),
                                        ('attrs', ('builtins.dict', [])),
                                        ('data',
                                         ('numpy.ndarray',
                                          'datetime64[s]',
                                          (2,),
                                          '[datetime.datetime(2020, 1, 1, 0, 0), datetime.datetime(2020, 1, '
                                          '2, 0, 0)]')))),
                                      (('builtins.str', "'sub'"),
                                       ('ceos_alos2.hierarchy.Group',
                                        ('path', ('builtins.str', "'/sub'")),
                                        ('url', ('builtins.str', "'s3://bucket/data'")),
                                        ('attrs',
                                         ('builtins.dict',
                                          [(('builtins.str', "'k'"),
                                            ('builtins.list', [('builtins.int', '1')]))])),
                                        ('data',
                                         ('builtins.dict',
                                          [(('builtins.str', "'w'"),
                                            ('ceos_alos2.hierarchy.Variable',
                                             ('dims', ('builtins.list', [('builtins.str', "'x'")])),
                                             ('attrs', ('builtins.dict', [])),
                                             ('data',
                                              ('numpy.ndarray', 'float64', (2,), '[1.5, 2.5]'))))]))))])))),
                                 "[('mapper.root',), ('mapper.root',), ('Path.is_file', "
                                 "'4f7cfeeaf747854a0a17f4fa6b2181e08de541609edf2ad148ca93567cf73d6a/.index'), "
                                 "('Path.read_text', "
                                 "'4f7cfeeaf747854a0a17f4fa6b2181e08de541609edf2ad148ca93567cf73d6a/.index', "
                                 '(), {})]'),
 "read_cache/'dir/'/both/positional": (('returns',
                                        ('ceos_alos2.hierarchy.Group',
                                         ('path', ('builtins.str', "'/'")),
                                         ('url', ('builtins.str', "'s3://bucket/data'")),
                                         ('attrs',
                                          ('builtins.dict',
                                           [(('builtins.str', "'x'"),
                                             ('builtins.dict',
                                              [(('builtins.str', "'y'"),
                                                ('builtins.tuple',
                                                 [('builtins.int', '1'),
                                                  ('builtins.tuple',
                                                   [('builtins.int', '2'), ('builtins.int', '3')])]))]))])),
                                         ('data',
                                          ('builtins.dict',
                                           [(('builtins.str', "'v'"),
                                             ('ceos_alos2.hierarchy.Variable',
                                              ('dims',
                                               ('builtins.list',
                                                [('builtins.str', "'rows'"), ('builtins.str', "'columns'")])),
                                              ('attrs',
                                               ('builtins.dict',
                                                [(('builtins.str', "'a'"),
                                                  ('builtins.tuple',
                                                   [('builtins.int', '1'), ('builtins.int', '2')]))])),
                                              ('data',
                                               ('ceos_alos2.array.Array',
                                                ('fs', 'DirFileSystem', '/path/to', 'LocalFileSystem'),
                                                ('url', ('builtins.str', "'file'")),
                                                ('byte_ranges',
                                                 ('builtins.list',
                                                  [('builtins.tuple',
                                                    [('builtins.int', '5'), ('builtins.int', '10')]),
                                                   ('builtins.tuple',
                                                    [('builtins.int', '15'), ('builtins.int', '20')]),
                                                   ('builtins.tuple',
                                                    [('builtins.int', '25'), ('builtins.int', '30')]),
                                                   ('builtins.tuple',
                                                    [('builtins.int', '35'), ('builtins.int', '40')])])),
                                                ('shape',
                                                 ('builtins.tuple',
                                                  [('builtins.int', '4'), ('builtins.int', '3')])),
                                                ('dtype', ('builtins.str', "'int16'")),
                                                ('type_code', ('builtins.str', "'IU2'")),
                                                ('records_per_chunk', ('builtins.int', '3')),
                                                ('chunk_offsets',
                                                 ('builtins.dict',
                                                  [(('builtins.int', '0'),
                                                    ('builtins.dict',
                                                     [(('builtins.str', "'offset'"), ('builtins.int', '5')),
                                                      (('builtins.str', "'size'"), ('builtins.int', '25'))])),
                                                   (('builtins.int', '1'),
                                                    ('builtins.dict',
                                                     [(('builtins.str', "'offset'"), ('builtins.int', '35')),
                                                      (('builtins.str', "'size'"),
                                                       ('builtins.int', '5'))]))])))))),
                                            (('builtins.str', "'t'"),
                                             ('ceos_alos2.hierarchy.Variable',
                                              ('dims', ('builtins.list', [('builtins.str', "'t'")])),
                                              ('attrs', ('builtins.dict', [])),
                                              ('data',
                                               ('numpy.ndarray',
                                                'datetime64[s]',
                                                (2,),
                                                '[datetime.datetime(2020, 1, 1, 0, 0), '
                                                'datetime.datetime(2020, 1, 2, 0, 0)]')))),
                                            (('builtins.str', "'sub'"),
                                             ('ceos_alos2.hierarchy.Group',
                                              ('path', ('builtins.str', "'/sub'")),
                                              ('url', ('builtins.str', "'s3://bucket/data'")),
                                              ('attrs',
                                               ('builtins.dict',
                                                [(('builtins.str', "'k'"),
                                                  ('builtins.list', [('builtins.int', '1')]))])),
                                              ('data',
                                               ('builtins.dict',
                                                [(('builtins.str', "'w'"),
                                                  ('ceos_alos2.hierarchy.Variable',
                                                   ('dims', ('builtins.list', [('builtins.str', "'x'")])),
                                                   ('attrs', ('builtins.dict', [])),
                                                   ('data',
                                                    ('numpy.ndarray',
                                                     'float64',
                                                     (2,),
                                                     '[1.5, 2.5]'))))]))))])))),
                                       "[('mapper.root',), ('mapper.root',), ('Path.is_file', "
                                       "'4f7cfeeaf747854a0a17f4fa6b2181e08de541609edf2ad148ca93567cf73d6a/.index'), "
                                       "('Path.read_text', "
                                       "'4f7cfeeaf747854a0a17f4fa6b2181e08de541609edf2ad148ca93567cf73d6a/.index', "
                                       '(), {})]'),
 "read_cache/'dir/'/local_invalid_remote_valid/2": (('raises',
                                                     'ceos_alos2.sar_image.caching.CachingError',
                                                     'invalid or incomplete cache file'),
                                                    "[('mapper.root',), ('mapper.root',), ('Path.is_file', "
                                                    "'4f7cfeeaf747854a0a17f4fa6b2181e08de541609edf2ad148ca93567cf73d6a/.index'), "
                                                    "('Path.read_text', "
                                                    "'4f7cfeeaf747854a0a17f4fa6b2181e08de541609edf2ad148ca93567cf73d6a/.index', "
                                                    '(), {})]'),
 "read_cache/'dir/'/local_invalid_remote_valid/None": (('raises',
                                                        'ceos_alos2.sar_image.caching.CachingError',
                                                        'invalid or incomplete cache file'),
                                                       "[('mapper.root',), ('mapper.root',), "
                                                       "('Path.is_file', "
                                                       "'4f7cfeeaf747854a0a17f4fa6b2181e08de541609edf2ad148ca93567cf73d6a/.index'), "
                                                       "('Path.read_text', "
                                                       "'4f7cfeeaf747854a0a17f4fa6b2181e08de541609edf2ad148ca93567cf73d6a/.index', "
                                                       '(), {})]'),
 "read_cache/'dir/'/local_invalid_remote_valid/positional": (('raises',
                                                              'ceos_alos2.sar_image.caching.CachingError',
                                                              'invalid or incomplete cache file'),
                                                             "[('mapper.root',), ('mapper.root',), "
                                                             "('Path.is_file', "
                                                             "'4f7cfeeaf747854a0a17f4fa6b2181e08de541609edf2ad148ca93567cf73d6a/.index'), "
                                                             "('Path.read_text', "
                                                             "'4f7cfeeaf747854a0a17f4fa6b2181e08de541609edf2ad148ca93567cf73d6a/.index', "
                                                             '(), {})]'),
 "read_cache/'dir/'/local_empty_remote_valid/2": (('raises',
                                                   'ceos_alos2.sar_image.caching.CachingError',
                                                   'invalid or incomplete cache file'),
                                                  "[('mapper.root',), ('mapper.root',), ('Path.is_file', "
                                                  "'4f7cfeeaf747854a0a17f4fa6b2181e08de541609edf2ad148ca93567cf73d6a/.index'), "
                                                  "('Path.read_text', "
                                                  "'4f7cfeeaf747854a0a17f4fa6b2181e08de541609edf2ad148ca93567cf73d6a/.index', "
                                                  '(), {})]'),
 "read_cache/'dir/'/local_empty_remote_valid/None": (('raises',
                                                      'ceos_alos2.sar_image.caching.CachingError',
                                                      'invalid or incomplete cache file'),
                                                     "[('mapper.root',), ('mapper.root',), ('Path.is_file', "
                                                     "'4f7cfeeaf747854a0a17f4fa6b2181e08de541609edf2ad148ca93567cf73d6a/.index'), "
                                                     "('Path.read_text', "
                                                     "'4f7cfeeaf747854a0a17f4fa6b2181e08de541609edf2ad148ca93567cf73d6a/.index', "
                                                     '(), {})]'),
 "read_cache/'dir/'/local_empty_remote_valid/positional": (('raises',
                                                            'ceos_alos2.sar_image.caching.CachingError',
                                                            'invalid or incomplete cache file'),
                                                           "[('mapper.root',), ('mapper.root',), "
                                                           "('Path.is_file', "
                                                           "'4f7cfeeaf747854a0a17f4fa6b2181e08de541609edf2ad148ca93567cf73d6a/.index'), "
                                                           "('Path.read_text', "
                                                           "'4f7cfeeaf747854a0a17f4fa6b2181e08de541609edf2ad148ca93567cf73d6a/.index', "
                                                           '(), {})]'),
 "read_cache/'dir/'/remote_invalid/2": (('raises',
                                         'ceos_alos2.sar_image.caching.CachingError',
                                         'invalid or incomplete cache file'),
                                        "[('mapper.root',), ('mapper.root',), ('Path.is_file', "
                                        "'4f7cfeeaf747854a0a17f4fa6b2181e08de541609edf2ad148ca93567cf73d6a/.index'), "
                                        "('mapper.__contains__', 'dir/.index'), ('mapper.__getitem__', "
                                        "'dir/.index')]"),
 "read_cache/'dir/'/remote_invalid/None": (('raises',
                                            'ceos_alos2.sar_image.caching.CachingError',
                                            'invalid or incomplete cache file'),
                                           "[('mapper.root',), ('mapper.root',), ('Path.is_file', "
                                           "'4f7cfeeaf747854a0a17f4fa6b2181e08de541609edf2ad148ca93567cf73d6a/.index'), "
                                           "('mapper.__contains__', 'dir/.index'), ('mapper.__getitem__', "
                                           "'dir/.index')]"),
 "read_cache/'dir/'/remote_invalid/positional": (('raises',
                                                  'ceos_alos2.sar_image.caching.CachingError',
                                                  'invalid or incomplete cache file'),
                                                 "[('mapper.root',), ('mapper.root',), ('Path.is_file', "
                                                 "'4f7cfeeaf747854a0a17f4fa6b2181e08de541609edf2ad148ca93567cf73d6a/.index'), "
                                                 "('mapper.__contains__', 'dir/.index'), "
                                                 "('mapper.__getitem__', 'dir/.index')]"),
 "read_cache/'dir/'/remote_empty/2": (('raises',
                                       'ceos_alos2.sar_image.caching.CachingError',
                                       'invalid or incomplete cache file'),
                                      "[('mapper.root',), ('mapper.root',), ('Path.is_file', "
                                      "'4f7cfeeaf747854a0a17f4fa6b2181e08de541609edf2ad148ca93567cf73d6a/.index'), "
                                      "('mapper.__contains__', 'dir/.index'), ('mapper.__getitem__', "
                                      "'dir/.index')]"),
 "read_cache/'dir/'/remote_empty/None": (('raises',
                                          'ceos_alos2.sar_image.caching.CachingError',
                                          'invalid or incomplete cache file'),
                                         "[('mapper.root',), ('mapper.root',), ('Path.is_file', "
                                         "'4f7cfeeaf747854a0a17f4fa6b2181e08de541609edf2ad148ca93567cf73d6a/.index'), "
                                         "('mapper.__contains__', 'dir/.index'), ('mapper.__getitem__', "
                                         "'dir/.index')]"),
 "read_cache/'dir/'/remote_empty/positional": (('raises',
                                                'ceos_alos2.sar_image.caching.CachingError',
                                                'invalid or incomplete cache file'),
                                               "[('mapper.root',), ('mapper.root',), ('Path.is_file', "
                                               "'4f7cfeeaf747854a0a17f4fa6b2181e08de541609edf2ad148ca93567cf73d6a/.index'), "
                                               "('mapper.__contains__', 'dir/.index'), "
                                               "('mapper.__getitem__', 'dir/.index')]"),
 "read_cache/'dir/'/remote_not_utf8/2": (('raises',
                                          'builtins.UnicodeDecodeError',
                                          "'utf-8' codec can't decode byte 0xff in position 0: invalid start "
                                          'byte'),
                                         "[('mapper.root',), ('mapper.root',), ('Path.is_file', "
                                         "'4f7cfeeaf747854a0a17f4fa6b2181e08de541609edf2ad148ca93567cf73d6a/.index'), "
                                         "('mapper.__contains__', 'dir/.index'), ('mapper.__getitem__', "
                                         "'dir/.index')]"),
 "read_cache/'dir/'/remote_not_utf8/None": (('raises',
                                             'builtins.UnicodeDecodeError',
                                             "'utf-8' codec can't decode byte 0xff in position 0: invalid "
                                             'start byte'),
                                            "[('mapper.root',), ('mapper.root',), ('Path.is_file', "
                                            "'4f7cfeeaf747854a0a17f4fa6b2181e08de541609edf2ad148ca93567cf73d6a/.index'), "
                                            "('mapper.__contains__', 'dir/.index'), ('mapper.__getitem__', "
                                            "'dir/.index')]"),
 "read_cache/'dir/'/remote_not_utf8/positional": (('raises',
                                                   'builtins.UnicodeDecodeError',
                                                   "'utf-8' codec can't decode byte 0xff in position 0: "
                                                   'invalid start byte'),
                                                  "[('mapper.root',), ('mapper.root',), ('Path.is_file', "
                                                  "'4f7cfeeaf747854a0a17f4fa6b2181e08de541609edf2ad148ca93567cf73d6a/.index'), "
                                                  "('mapper.__contains__', 'dir/.index'), "
                                                  "('mapper.__getitem__', 'dir/.index')]"),
 "read_cache/'dir/'/remote_str/2": (('raises',
                                     'builtins.AttributeError',
                                     "'str' object has no attribute 'decode'"),
                                    "[('mapper.root',), ('mapper.root',), ('Path.is_file', "
                                    "'4f7cfeeaf747854a0a17f4fa6b2181e08de541609edf2ad148ca93567cf73d6a/.index'), "
                                    "('mapper.__contains__', 'dir/.index'), ('mapper.__getitem__', "
                                    "'dir/.index')]"),
 "read_cache/'dir/'/remote_str/None": (('raises',
                                        'builtins.AttributeError',
                                        "'str' object has no attribute 'decode'"),
                                       "[('mapper.root',), ('mapper.root',), ('Path.is_file', "
                                       "'4f7cfeeaf747854a0a17f4fa6b2181e08de541609edf2ad148ca93567cf73d6a/.index'), "
                                       "('mapper.__contains__', 'dir/.index'), ('mapper.__getitem__', "
                                       "'dir/.index')]"),
 "read_cache/'dir/'/remote_str/positional": (('raises',
                                              'builtins.AttributeError',
                                              "'str' object has no attribute 'decode'"),
                                             "[('mapper.root',), ('mapper.root',), ('Path.is_file', "
                                             "'4f7cfeeaf747854a0a17f4fa6b2181e08de541609edf2ad148ca93567cf73d6a/.index'), "
                                             "('mapper.__contains__', 'dir/.index'), ('mapper.__getitem__', "
                                             "'dir/.index')]"),
 "read_cache/'dir/'/remote_under_basename_only/2": (('raises',
                                                     'ceos_alos2.sar_image.caching.CachingError',
                                                     'no cache found for dir/'),
                                                    "[('mapper.root',), ('mapper.root',), ('Path.is_file', "
                                                    "'4f7cfeeaf747854a0a17f4fa6b2181e08de541609edf2ad148ca93567cf73d6a/.index'), "
                                                    "('mapper.__contains__', 'dir/.index')]"),
 "read_cache/'dir/'/remote_under_basename_only/None": (('raises',
                                                        'ceos_alos2.sar_image.caching.CachingError',
                                                        'no cache found for dir/'),
                                                       "[('mapper.root',), ('mapper.root',), "
                                                       "('Path.is_file', "
                                                       "'4f7cfeeaf747854a0a17f4fa6b2181e08de541609edf2ad148ca93567cf73d6a/.index'), "
                                                       "('mapper.__contains__', 'dir/.index')]"),
 "read_cache/'dir/'/remote_under_basename_only/positional": (('raises',
                                                              'ceos_alos2.sar_image.caching.CachingError',
                                                              'no cache found for dir/'),
                                                             "[('mapper.root',), ('mapper.root',), "
                                                             "('Path.is_file', "
                                                             "'4f7cfeeaf747854a0a17f4fa6b2181e08de541609edf2ad148ca93567cf73d6a/.index'), "
                                                             "('mapper.__contains__', 'dir/.index')]"),
 "read_cache/''/none/2": (('raises', 'ceos_alos2.sar_image.caching.CachingError', 'no cache found for '),
                          "[('mapper.root',), ('mapper.root',), ('Path.is_file', "
                          "'4f7cfeeaf747854a0a17f4fa6b2181e08de541609edf2ad148ca93567cf73d6a/.index'), "
                          "('mapper.__contains__', '.index')]"),
 "read_cache/''/none/None": (('raises', 'ceos_alos2.sar_image.caching.CachingError', 'no cache found for '),
                             "[('mapper.root',), ('mapper.root',), ('Path.is_file', "
                             "'4f7cfeeaf747854a0a17f4fa6b2181e08de541609edf2ad148ca93567cf73d6a/.index'), "
                             "('mapper.__contains__', '.index')]"),
 "read_cache/''/none/positional": (('raises',
                                    'ceos_alos2.sar_image.caching.CachingError',
                                    'no cache found for '),
                                   "[('mapper.root',), ('mapper.root',), ('Path.is_file', "
                                   "'4f7cfeeaf747854a0a17f4fa6b2181e08de541609edf2ad148ca93567cf73d6a/.index'), "
                                   "('mapper.__contains__', '.index')]"),
 "read_cache/''/local_only/2": (('returns',
                                 ('ceos_alos2.hierarchy.Group',
                                  ('path', ('builtins.str', "'/'")),
                                  ('url', ('builtins.str', "'s3://bucket/data'")),
                                  ('attrs',
                                   ('builtins.dict',
                                    [(('builtins.str', "'x'"),
                                      ('builtins.dict',
                                       [(('builtins.str', "'y'"),
                                         ('builtins.tuple',
                                          [('builtins.int', '1'),
                                           ('builtins.tuple',
                                            [('builtins.int', '2'), ('builtins.int', '3')])]))]))])),
                                  ('data',
                                   ('builtins.dict',
                                    [(('builtins.str', "'v'"),
                                      ('ceos_alos2.hierarchy.Variable',
                                       ('dims',
                                        ('builtins.list',
                                         [('builtins.str', "'rows'"), ('builtins.str', "'columns'")])),
                                       ('attrs',
                                        ('builtins.dict',
                                         [(('builtins.str', "'a'"),
                                           ('builtins.tuple',
                                            [('builtins.int', '1'), ('builtins.int', '2')]))])),
                                       ('data',
                                        ('ceos_alos2.array.Array',
                                         ('fs', 'DirFileSystem', '/path/to', 'LocalFileSystem'),
                                         ('url', ('builtins.str', "'file'")),
                                         ('byte_ranges',
                                          ('builtins.list',
                                           [('builtins.tuple',
                                             [('builtins.int', '5'), ('builtins.int', '10')]),
                                            ('builtins.tuple',
                                             [('builtins.int', '15'), ('builtins.int', '20')]),
                                            ('builtins.tuple',
                                             [('builtins.int', '25'), ('builtins.int', '30')]),
                                            ('builtins.tuple',
                                             [('builtins.int', '35'), ('builtins.int', '40')])])),
                                         ('shape',
                                          ('builtins.tuple', [('builtins.int', '4'), ('builtins.int', '3')])),
                                         ('dtype', ('builtins.str', "'int16'")),
                                         ('type_code', ('builtins.str', "'IU2'")),
                                         ('records_per_chunk', ('builtins.int', '2')),
                                         ('chunk_offsets',
                                          ('builtins.dict',
                                           [(('builtins.int', '0'),
                                             ('builtins.dict',
                                              [(('builtins.str', "'offset'"), ('builtins.int', '5')),
                                               (('builtins.str', "'size'"), ('builtins.int', '15'))])),
                                            (('builtins.int', '1'),
                                             ('builtins.dict',
                                              [(('builtins.str', "'offset'"), ('builtins.int', '25')),
                                               (('builtins.str', "'size'"), ('builtins.int', '15'))]))])))))),
                                     (('builtins.str', "'t'"),
                                      ('ceos_alos2.hierarchy.Variable',
                                       ('dims', ('builtins.list', [('builtins.str', "'t'")])),
                                       ('attrs', ('builtins.dict', [])),
                                       ('data',
                                        ('numpy.ndarray',
                                         'datetime64[s]',
                                         (2,),
                                         '[datetime.datetime(2020, 1, 1, 0, 0), datetime.datetime(2020, 1, '
                                         '2, 0, 0)]')))),
                                     (('builtins.str', "'sub'"),
                                      ('ceos_alos2.hierarchy.Group',
                                       ('path', ('builtins.str', "'/sub'")),
                                       ('url', ('builtins.str', "'s3://bucket/data'")),
                                       ('attrs',
                                        ('builtins.dict',
                                         [(('builtins.str', "'k'"),
                                           ('builtins.list', [('builtins.int', '1')]))])),
                                       ('data',
                                        ('builtins.dict',
                                         [(('builtins.str', "'w'"),
                                           ('ceos_alos2.hierarchy.Variable',
                                            ('dims', ('builtins.list', [('builtins.str', "'x'")])),
                                            ('attrs', ('builtins.dict', [])),
                                            ('data',
                                             ('numpy.ndarray', 'float64', (2,), '[1.5, 2.5]'))))]))))])))),
                                "[('mapper.root',), ('mapper.root',), ('Path.is_file', "
                                "'4f7cfeeaf747854a0a17f4fa6b2181e08de541609edf2ad148ca93567cf73d6a/.index'), "
                                "('Path.read_text', "
                                "'4f7cfeeaf747854a0a17f4fa6b2181e08de541609edf2ad148ca93567cf73d6a/.index', "
                                '(), {})]'),
 "read_cache/''/local_only/None": (('returns',
                                    ('ceos_alos2.hierarchy.Group',
                                     ('path', ('builtins.str', "'/'")),
                                     ('url', ('builtins.str', "'s3://bucket/data'")),
                                     ('attrs',
                                      ('builtins.dict',
                                       [(('builtins.str', "'x'"),
                                         ('builtins.dict',
                                          [(('builtins.str', "'y'"),
                                            ('builtins.tuple',
                                             [('builtins.int', '1'),
                                              ('builtins.tuple',
                                               [('builtins.int', '2'), ('builtins.int', '3')])]))]))])),
                                     ('data',
                                      ('builtins.dict',
                                       [(('builtins.str', "'v'"),
                                         ('ceos_alos2.hierarchy.Variable',
                                          ('dims',
                                           ('builtins.list',
                                            [('builtins.str', "'rows'"), ('builtins.str', "'columns'")])),
                                          ('attrs',
                                           ('builtins.dict',
                                            [(('builtins.str', "'a'"),
                                              ('builtins.tuple',
                                               [('builtins.int', '1'), ('builtins.int', '2')]))])),
                                          ('data',
                                           ('ceos_alos2.array.Array',
                                            ('fs', 'DirFileSystem', '/path/to', 'LocalFileSystem'),
                                            ('url', ('builtins.str', "'file'")),
                                            ('byte_ranges',
                                             ('builtins.list',
                                              [('builtins.tuple',
                                                [('builtins.int', '5'), ('builtins.int', '10')]),
                                               ('builtins.tuple',
                                                [('builtins.int', '15'), ('builtins.int', '20')]),
                                               ('builtins.tuple',
                                                [('builtins.int', '25'), ('builtins.int', '30')]),
                                               ('builtins.tuple',
                                                [('builtins.int', '35'), ('builtins.int', '40')])])),
                                            ('shape',
                                             ('builtins.tuple',
                                              [('builtins.int', '4'), ('builtins.int', '3')])),
                                            ('dtype', ('builtins.str', "'int16'")),
                                            ('type_code', ('builtins.str', "'IU2'")),
                                            ('records_per_chunk', ('builtins.int', '1024')),
                                            ('chunk_offsets',
                                             ('builtins.dict',
                                              [(('builtins.int', '0'),
                                                ('builtins.dict',
                                                 [(('builtins.str', "'offset'"), ('builtins.int', '5')),
                                                  (('builtins.str', "'size'"),
                                                   ('builtins.int', '35'))]))])))))),
                                        (('builtins.str', "'t'"),
                                         ('ceos_alos2.hierarchy.Variable',
                                          ('dims', ('builtins.list', [('builtins.str', "'t'")])),
                                          ('attrs', ('builtins.dict', [])),
                                          ('data',
                                           ('numpy.ndarray',
                                            'datetime64[s]',
                                            (2,),
                                            '[datetime.datetime(2020, 1, 1, 0, 0), datetime.datetime(2020, '
                                            '1, 2, 0, 0)]')))),
                                        (('builtins.str', "'sub'"),
                                         ('ceos_alos2.hierarchy.Group',
                                          ('path', ('builtins.str', "'/sub'")),
                                          ('url', ('builtins.str', "'s3://bucket/data'")),
                                          ('attrs',
                                           ('builtins.dict',
                                            [(('builtins.str', "'k'"),
                                              ('builtins.list', [('builtins.int', '1')]))])),
                                          ('data',
                                           ('builtins.dict',
                                            [(('builtins.str', "'w'"),
                                              ('ceos_alos2.hierarchy.Variable',
                                               ('dims', ('builtins.list', [('builtins.str', "'x'")])),
                                               ('attrs', ('builtins.dict', [])),
                                               ('data',
                                                ('numpy.ndarray', 'float64', (2,), '[1.5, 2.5]'))))]))))])))),
                                   "[('mapper.root',), ('mapper.root',), ('Path.is_file', "
                                   "'4f7cfeeaf747854a0a17f4fa6b2181e08de541609edf2ad148ca93567cf73d6a/.index'), "
                                   "('Path.read_text', "
                                   "'4f7cfeeaf747854a0a17f4fa6b2181e08de541609edf2ad148ca93567cf73d6a/.index', "
                                   '(), {})]'),
 "read_cache/''/local_only/positional": (('returns',
                                          ('ceos_alos2.hierarchy.Group',
                                           ('path', ('builtins.str', "'/'")),
                                           ('url', ('builtins.str', "'s3://bucket/data'")),
                                           ('attrs',
                                            ('builtins.dict',
                                             [(('builtins.str', "'x'"),
                                               ('builtins.dict',
                                                [(('builtins.str', "'y'"),
                                                  ('builtins.tuple',
                                                   [('builtins.int', '1'),
                                                    ('builtins.tuple',
                                                     [('builtins.int', '2'), ('builtins.int', '3')])]))]))])),
                                           ('data',
                                            ('builtins.dict',
                                             [(('builtins.str', "'v'"),
                                               ('ceos_alos2.hierarchy.Variable',
                                                ('dims',
                                                 ('builtins.list',
                                                  [('builtins.str', "'rows'"),
                                                   ('builtins.str', "'columns'")])),
                                                ('attrs',
                                                 ('builtins.dict',
                                                  [(('builtins.str', "'a'"),
                                                    ('builtins.tuple',
                                                     [('builtins.int', '1'), ('builtins.int', '2')]))])),
                                                ('data',
                                                 ('ceos_alos2.array.Array',
                                                  ('fs', 'DirFileSystem', '/path/to', 'LocalFileSystem'),
                                                  ('url', ('builtins.str', "'file'")),
                                                  ('byte_ranges',
                                                   ('builtins.list',
                                                    [('builtins.tuple',
                                                      [('builtins.int', '5'), ('builtins.int', '10')]),
                                                     ('builtins.tuple',
                                                      [('builtins.int', '15'), ('builtins.int', '20')]),
                                                     ('builtins.tuple',
                                                      [('builtins.int', '25'), ('builtins.int', '30')]),
                                                     ('builtins.tuple',
                                                      [('builtins.int', '35'), ('builtins.int', '40')])])),
                                                  ('shape',
                                                   ('builtins.tuple',
                                                    [('builtins.int', '4'), ('builtins.int', '3')])),
                                                  ('dtype', ('builtins.str', "'int16'")),
                                                  ('type_code', ('builtins.str', "'IU2'")),
                                                  ('records_per_chunk', ('builtins.int', '3')),
                                                  ('chunk_offsets',
                                                   ('builtins.dict',
                                                    [(('builtins.int', '0'),
                                                      ('builtins.dict',
                                                       [(('builtins.str', "'offset'"), ('builtins.int', '5')),
                                                        (('builtins.str', "'size'"),
                                                         ('builtins.int', '25'))])),
                                                     (('builtins.int', '1'),
                                                      ('builtins.dict',
                                                       [(('builtins.str', "'offset'"),
                                                         ('builtins.int', '35')),
                                                        (('builtins.str', "'size'"),
                                                         ('builtins.int', '5'))]))])))))),
                                              (('builtins.str', "'t'"),
                                               ('ceos_alos2.hierarchy.Variable',
                                                ('dims', ('builtins.list', [('builtins.str', "'t'")])),
                                                ('attrs', ('builtins.dict', [])),
                                                ('data',
                                                 ('numpy.ndarray',
                                                  'datetime64[s]',
                                                  (2,),
                                                  '[datetime.datetime(2020, 1, 1, 0, 0), '
                                                  'datetime.datetime(2020, 1, 2, 0, 0)]')))),
                                              (('builtins.str', "'sub'"),
                                               ('ceos_alos2.hierarchy.Group',
                                                ('path', ('builtins.str', "'/sub'")),
                                                ('url', ('builtins.str', "'s3://bucket/data'")),
                                                ('attrs',
                                                 ('builtins.dict',
                                                  [(('builtins.str', "'k'"),
                                                    ('builtins.list', [('builtins.int', '1')]))])),
                                                ('data',
                                                 ('builtins.dict',
                                                  [(('builtins.str', "'w'"),
                                                    ('ceos_alos2.hierarchy.Variable',
                                                     ('dims', ('builtins.list', [('builtins.str', "'x'")])),
                                                     ('attrs', ('builtins.dict', [])),
                                                     ('data',
                                                      ('numpy.ndarray',
                                                       'float64',
                                                       (2,),
                                                       '[1.5, 2.5]'))))]))))])))),
                                         "[('mapper.root',), ('mapper.root',), ('Path.is_file', "
                                         "'4f7cfeeaf747854a0a17f4fa6b2181e08de541609edf2ad148ca93567cf73d6a/.index'), "
                                         "('Path.read_text', "
                                         "'4f7cfeeaf747854a0a17f4fa6b2181e08de541609edf2ad148ca93567cf73d6a/.index', "
                                         '(), {})]'),
 "read_cache/''/remote_only/2": (('returns',
                                  ('ceos_alos2.hierarchy.Group',
                                   ('path', ('builtins.str', "'/'")),
                                   ('url', ('builtins.str', "'s3://bucket/data'")),
                                   ('attrs', ('builtins.dict', [])),
                                   ('data', ('builtins.dict', [])))),
                                 "[('mapper.root',), ('mapper.root',), ('Path.is_file', "
                                 "'4f7cfeeaf747854a0a17f4fa6b2181e08de541609edf2ad148ca93567cf73d6a/.index'), "
                                 "('mapper.__contains__', '.index'), ('mapper.__getitem__', '.index')]"),
 "read_cache/''/remote_only/None": (('returns',
                                     ('ceos_alos2.hierarchy.Group',
                                      ('path', ('builtins.str', "'/'")),
                                      ('url', ('builtins.str', "'s3://bucket/data'")),
                                      ('attrs', ('builtins.dict', [])),
                                      ('data', ('builtins.dict', [])))),
                                    "[('mapper.root',), ('mapper.root',), ('Path.is_file', "
                                    "'4f7cfeeaf747854a0a17f4fa6b2181e08de541609edf2ad148ca93567cf73d6a/.index'), "
                                    "('mapper.__contains__', '.index'), ('mapper.__getitem__', '.index')]"),
 "read_cache/''/remote_only/positional": (('returns',
                                           ('ceos_alos2.hierarchy.Group',
                                            ('path', ('builtins.str', "'/'")),
                                            ('url', ('builtins.str', "'s3://bucket/data'")),
                                            ('attrs', ('builtins.dict', [])),
                                            ('data', ('builtins.dict', [])))),
                                          "[('mapper.root',), ('mapper.root',), ('Path.is_file', "
                                          "'4f7cfeeaf747854a0a17f4fa6b2181e08de541609edf2ad148ca93567cf73d6a/.index'), "
                                          "('mapper.__contains__', '.index'), ('mapper.__getitem__', "
                                          "'.index')]"),
 "read_cache/''/both/2": (('returns',
                           ('ceos_alos2.hierarchy.Group',
                            ('path', ('builtins.str', "'/'")),
                            ('url', ('builtins.str', "'s3://bucket/data'")),
                            ('attrs',
                             ('builtins.dict',
                              [(('builtins.str', "'x'"),
                                ('builtins.dict',
                                 [(('builtins.str', "'y'"),
                                   ('builtins.tuple',
                                    [('builtins.int', '1'),
                                     ('builtins.tuple',
                                      [('builtins.int', '2'), ('builtins.int', '3')])]))]))])),
                            ('data',
                             ('builtins.dict',
                              [(('builtins.str', "'v'"),
                                ('ceos_alos2.hierarchy.Variable',
                                 ('dims',
                                  ('builtins.list',
                                   [('builtins.str', "'rows'"), ('builtins.str', "'columns'")])),
                                 ('attrs',
                                  ('builtins.dict',
                                   [(('builtins.str', "'a'"),
                                     ('builtins.tuple', [('builtins.int', '1'), ('builtins.int', '2')]))])),
                                 ('data',
                                  ('ceos_alos2.array.Array',
                                   ('fs', 'DirFileSystem', '/path/to', 'LocalFileSystem'),
                                   ('url', ('builtins.str', "'file'")),
                                   ('byte_ranges',
                                    ('builtins.list',
                                     [('builtins.tuple', [('builtins.int', '5'), ('builtins.int', '10')]),
                                      ('builtins.tuple', [('builtins.int', '15'), ('builtins.int', '20')]),
                                      ('builtins.tuple', [('builtins.int', '25'), ('builtins.int', '30')]),
                                      ('builtins.tuple', [('builtins.int', '35'), ('builtins.int', '40')])])),
                                   ('shape',
                                    ('builtins.tuple', [('builtins.int', '4'), ('builtins.int', '3')])),
                                   ('dtype', ('builtins.str', "'int16'")),
                                   ('type_code', ('builtins.str', "'IU2'")),
                                   ('records_per_chunk', ('builtins.int', '2')),
                                   ('chunk_offsets',
                                    ('builtins.dict',
                                     [(('builtins.int', '0'),
                                       ('builtins.dict',
                                        [(('builtins.str', "'offset'"), ('builtins.int', '5')),
                                         (('builtins.str', "'size'"), ('builtins.int', '15'))])),
                                      (('builtins.int', '1'),
                                       ('builtins.dict',
                                        [(('builtins.str', "'offset'"), ('builtins.int', '25')),
                                         (('builtins.str', "'size'"), ('builtins.int', '15'))]))])))))),
                               (('builtins.str', "'t'"),
                                ('ceos_alos2.hierarchy.Variable',
                                 ('dims', ('builtins.list', [('builtins.str', "'t'")])),
                                 ('attrs', ('builtins.dict', [])),
                                 ('data',
                                  ('numpy.ndarray',
                                   'datetime64[s]',
                                   (2,),
                                   '[datetime.datetime(2020, 1, 1, 0, 0), datetime.datetime(2020, 1, 2, 0, '
                                   '0)]')))),
                               (('builtins.str', "'sub'"),
                                ('ceos_alos2.hierarchy.Group',
                                 ('path', ('builtins.str', "'/sub'")),
                                 ('url', ('builtins.str', "'s3://bucket/data'")),
                                 ('attrs',
                                  ('builtins.dict',
                                   [(('builtins.str', "'k'"), ('builtins.list', [('builtins.int', '1')]))])),
                                 ('data',
                                  ('builtins.dict',
                                   [(('builtins.str', "'w'"),
                                     ('ceos_alos2.hierarchy.Variable',
                                      ('dims', ('builtins.list', [('builtins.str', "'x'")])),
                                      ('attrs', ('builtins.dict', [])),
                                      ('data', ('numpy.ndarray', 'float64', (2,), '[1.5, 2.5]'))))]))))])))),
                          "[('mapper.root',), ('mapper.root',), ('Path.is_file', "
                          "'4f7cfeeaf747854a0a17f4fa6b2181e08de541609edf2ad148ca93567cf73d6a/.index'), "
                          "('Path.read_text', "
                          "'4f7cfeeaf747854a0a17f4fa6b2181e08de541609edf2ad148ca93567cf73d6a/.index', (), "
                          '{})]'),
 "read_cache/''/both/None": (('returns',
                              ('ceos_alos2.hierarchy.Group',
                               ('path', ('builtins.str', "'/'")),
                               ('url', ('builtins.str', "'s3://bucket/data'")),
                               ('attrs',
                                ('builtins.dict',
                                 [(('builtins.str', "'x'"),
                                   ('builtins.dict',
                                    [(('builtins.str', "'y'"),
                                      ('builtins.tuple',
                                       [('builtins.int', '1'),
                                        ('builtins.tuple',
                                         [('builtins.int', '2'), ('builtins.int', '3')])]))]))])),
                               ('data',
                                ('builtins.dict',
                                 [(('builtins.str', "'v'"),
                                   ('ceos_alos2.hierarchy.Variable',
                                    ('dims',
                                     ('builtins.list',
                                      [('builtins.str', "'rows'"), ('builtins.str', "'columns'")])),
                                    ('attrs',
                                     ('builtins.dict',
                                      [(('builtins.str', "'a'"),
                                        ('builtins.tuple',
                                         [('builtins.int', '1'), ('builtins.int', '2')]))])),
                                    ('data',
                                     ('ceos_alos2.array.Array',
                                      ('fs', 'DirFileSystem', '/path/to', 'LocalFileSystem'),
                                      ('url', ('builtins.str', "'file'")),
                                      ('byte_ranges',
                                       ('builtins.list',
                                        [('builtins.tuple', [('builtins.int', '5'), ('builtins.int', '10')]),
                                         ('builtins.tuple', [('builtins.int', '15'), ('builtins.int', '20')]),
                                         ('builtins.tuple', [('builtins.int', '25'), ('builtins.int', '30')]),
                                         ('builtins.tuple',
                                          [('builtins.int', '35'), ('builtins.int', '40')])])),
                                      ('shape',
                                       ('builtins.tuple', [('builtins.int', '4'), ('builtins.int', '3')])),
                                      ('dtype', ('builtins.str', "'int16'")),
                                      ('type_code', ('builtins.str', "'IU2'")),
                                      ('records_per_chunk', ('builtins.int', '1024')),
                                      ('chunk_offsets',
                                       ('builtins.dict',
                                        [(('builtins.int', '0'),
                                          ('builtins.dict',
                                           [(('builtins.str', "'offset'"), ('builtins.int', '5')),
                                            (('builtins.str', "'size'"), ('builtins.int', '35'))]))])))))),
                                  (('builtins.str', "'t'"),
                                   ('ceos_alos2.hierarchy.Variable',
                                    ('dims', ('builtins.list', [('builtins.str', "'t'")])),
                                    ('attrs', ('builtins.dict', [])),
                                    ('data',
                                     ('numpy.ndarray',
                                      'datetime64[s]',
                                      (2,),
                                      '[datetime.datetime(2020, 1, 1, 0, 0), datetime.datetime(2020, 1, 2, '
                                      '0, 0)]')))),
                                  (('builtins.str', "'sub'"),
                                   ('ceos_alos2.hierarchy.Group',
                                    ('path', ('builtins.str', "'/sub'")),
                                    ('url', ('builtins.str', "'s3://bucket/data'")),
                                    ('attrs',
                                     ('builtins.dict',
                                      [(('builtins.str', "'k'"),
                                        ('builtins.list', [('builtins.int', '1')]))])),
                                    ('data',
                                     ('builtins.dict',
                                      [(('builtins.str', "'w'"),
                                        ('ceos_alos2.hierarchy.Variable',
                                         ('dims', ('builtins.list', [('builtins.str', "'x'")])),
                                         ('attrs', ('builtins.dict', [])),
                                         ('data',
                                          ('numpy.ndarray', 'float64', (2,), '[1.5, 2.5]'))))]))))])))),
                             "[('mapper.root',), ('mapper.root',), ('Path.is_file', "
                             "'4f7cfeeaf747854a0a17f4fa6b2181e08de541609edf2ad148ca93567cf73d6a/.index'), "
                             "('Path.read_text', "
                             "'4f7cfeeaf747854a0a17f4fa6b2181e08de541609edf2ad148ca93567cf73d6a/.index', (), "
                             '{})]'),
 "read_cache/''/both/positional": (('returns',
                                    ('ceos_alos2.hierarchy.Group',
                                     ('path', ('builtins.str', "'/'")),
                                     ('url', ('builtins.str', "'s3://bucket/data'")),
                                     ('attrs',
                                      ('builtins.dict',
                                       [(('builtins.str', "'x'"),
                                         ('builtins.dict',
                                          [(('builtins.str', "'y'"),
                                            ('builtins.tuple',
                                             [('builtins.int', '1'),
                                              ('builtins.tuple',
                                               [('builtins.int', '2'), ('builtins.int', '3')])]))]))])),
                                     ('data',
                                      ('builtins.dict',
                                       [(('builtins.str', "'v'"),
                                         ('ceos_alos2.hierarchy.Variable',
                                          ('dims',
                                           ('builtins.list',
                                            [('builtins.str', "'rows'"), ('builtins.str', "'columns'")])),
                                          ('attrs',
                                           ('builtins.dict',
                                            [(('builtins.str', "'a'"),
                                              ('builtins.tuple',
                                               [('builtins.int', '1'), ('builtins.int', '2')]))])),
                                          ('data',
                                           ('ceos_alos2.array.Array',
                                            ('fs', 'DirFileSystem', '/path/to', 'LocalFileSystem'),
                                            ('url', ('builtins.str', "'file'")),
                                            ('byte_ranges',
                                             ('builtins.list',
                                              [('builtins.tuple',
                                                [('builtins.int', '5'), ('builtins.int', '10')]),
                                               ('builtins.tuple',
                                                [('builtins.int', '15'), ('builtins.int', '20')]),
                                               ('builtins.tuple',
                                                [('builtins.int', '25'), ('builtins.int', '30')]),
                                               ('builtins.tuple',
                                                [('builtins.int', '35'), ('builtins.int', '40')])])),
                                            ('shape',
                                             ('builtins.tuple',
                                              [('builtins.int', '4'), ('builtins.int', '3')])),
                                            ('dtype', ('builtins.str', "'int16'")),
                                            ('type_code', ('builtins.str', "'IU2'")),
                                            ('records_per_chunk', ('builtins.int', '3')),
                                            ('chunk_offsets',
                                             ('builtins.dict',
                                              [(('builtins.int', '0'),
                                                ('builtins.dict',
                                                 [(('builtins.str', "'offset'"), ('builtins.int', '5')),
                                                  (('builtins.str', "'size'"), ('builtins.int', '25'))])),
                                               (('builtins.int', '1'),
                                                ('builtins.dict',
                                                 [(('builtins.str', "'offset'"), ('builtins.int', '35')),
                                                  (('builtins.str', "'size'"),
                                                   ('builtins.int', '5'))]))])))))),
                                        (('builtins.str', "'t'"),
                                         ('ceos_alos2.hierarchy.Variable',
                                          ('dims', ('builtins.list', [('builtins.str', "'t'")])),
                                          ('attrs', ('builtins.dict', [])),
                                          ('data',
                                           ('numpy.ndarray',
                                            'datetime64[s]',
                                            (2,),
                                            '[datetime.datetime(2020, 1, 1, 0, 0), datetime.datetime(2020, '
                                            '1, 2, 0, 0)]')))),
                                        (('builtins.str', "'sub'"),
                                         ('ceos_alos2.hierarchy.Group',
                                          ('path', ('builtins.str', "'/sub'")),
                                          ('url', ('builtins.str', "'s3://bucket/data'")),
                                          ('attrs',
                                           ('builtins.dict',
                                            [(('builtins.str', "'k'"),
                                              ('builtins.list', [('builtins.int', '1')]))])),
                                          ('data',
                                           ('builtins.dict',
                                            [(('builtins.str', "'w'"),
                                              ('ceos_alos2.hierarchy.Variable',
                                               ('dims', ('builtins.list', [('builtins.str', "'x'")])),
                                               ('attrs', ('builtins.dict', [])),
                                               ('data',
                                                ('numpy.ndarray', 'float64', (2,), '[1.5, 2.5]'))))]))))])))),
                                   "[('mapper.root',), ('mapper.root',), ('Path.is_file', "
                                   "'4f7cfeeaf747854a0a17f4fa6b2181e08de541609edf2ad148ca93567cf73d6a/.index'), "
                                   "('Path.read_text', "
                                   "'4f7cfeeaf747854a0a17f4fa6b2181e08de541609edf2ad148ca93567cf73d6a/.index', "
                                   '(), {})]'),
 "read_cache/''/local_invalid_remote_valid/2": (('raises',
                                                 'ceos_alos2.sar_image.caching.CachingError',
                                                 'invalid or incomplete cache file'),
                                                "[('mapper.root',), ('mapper.root',), ('Path.is_file', "
                                                "'4f7cfeeaf747854a0a17f4fa6b2181e08de541609edf2ad148ca93567cf73d6a/.index'), "
                                                "('Path.read_text', "
                                                "'4f7cfeeaf747854a0a17f4fa6b2181e08de541609edf2ad148ca93567cf73d6a/.index', "
                                                '(), {})]'),
 "read_cache/''/local_invalid_remote_valid/None": (('raises',
                                                    'ceos_alos2.sar_image.caching.CachingError',
                                                    'invalid or incomplete cache file'),
                                                   "[('mapper.root',), ('mapper.root',), ('Path.is_file', "
                                                   "'4f7cfeeaf747854a0a17f4fa6b2181e08de541609edf2ad148ca93567cf73d6a/.index'), "
                                                   "('Path.read_text', "
                                                   "'4f7cfeeaf747854a0a17f4fa6b2181e08de541609edf2ad148ca93567cf73d6a/.index', "
                                                   '(), {})]'),
 "read_cache/''/local_invalid_remote_valid/positional": (('raises',
                                                          'ceos_alos2.sar_image.caching.CachingError',
                                                          'invalid or incomplete cache file'),
                                                         "[('mapper.root',), ('mapper.root',), "
                                                         "('Path.is_file', "
                                                         "'4f7cfeeaf747854a0a17f4fa6b2181e08de541609edf2ad148ca93567cf73d6a/.index'), "
                                                         "('Path.read_text', "
                                                         "'4f7cfeeaf747854a0a17f4fa6b2181e08de541609edf2ad148ca93567cf73d6a/.index', "
                                                         '(), {})]'),
 "read_cache/''/local_empty_remote_valid/2": (('raises',
                                               'ceos_alos2.sar_image.caching.CachingError',
                                               'invalid or incomplete cache file'),
                                              "[('mapper.root',), ('mapper.root',), ('Path.is_file', "
                                              "'4f7cfeeaf747854a0a17f4fa6b2181e08de541609edf2ad148ca93567cf73d6a/.index'), "
                                              "('Path.read_text', "
                                              "'4f7cfeeaf747854a0a17f4fa6b2181e08de541609edf2ad148ca93567cf73d6a/.index', "
                                              '(), {})]'),
 "read_cache/''/local_empty_remote_valid/None": (('raises',
                                                  'ceos_alos2.sar_image.caching.CachingError',
                                                  'invalid or incomplete cache file'),
                                                 "[('mapper.root',), ('mapper.root',), ('Path.is_file', "
                                                 "'4f7cfeeaf747854a0a17f4fa6b2181e08de541609edf2ad148ca93567cf73d6a/.index'), "
                                                 "('Path.read_text', "
                                                 "'4f7cfeeaf747854a0a17f4fa6b2181e08de541609edf2ad148ca93567cf73d6a/.index', "
                                                 '(), {})]'),
 "read_cache/''/local_empty_remote_valid/positional": (('raises',
                                                        'ceos_alos2.sar_image.caching.CachingError',
                                                        'invalid or incomplete cache file'),
                                                       "[('mapper.root',), ('mapper.root',), "
                                                       "('Path.is_file', "
                                                       "'4f7cfeeaf747854a0a17f4fa6b2181e08de541609edf2ad148ca93567cf73d6a/.index'), "
                                                       "('Path.read_text', "
                                                       "'4f7cfeeaf747854a0a17f4fa6b2181e08de541609edf2ad148ca93567cf73d6a/.index', "
                                                       '(), {})]'),
 "read_cache/''/remote_invalid/2": (('raises',
                                     'ceos_alos2.sar_image.caching.CachingError',
                                     'invalid or incomplete cache file'),
                                    "[('mapper.root',), ('mapper.root',), ('Path.is_file', "
                                    "'4f7cfeeaf747854a0a17f4fa6b2181e08de541609edf2ad148ca93567cf73d6a/.index'), "
                                    "('mapper.__contains__', '.index'), ('mapper.__getitem__', '.index')]"),
 "read_cache/''/remote_invalid/None": (('raises',
                                        'ceos_alos2.sar_image.caching.CachingError',
                                        'invalid or incomplete cache file'),
                                       "[('mapper.root',), ('mapper.root',), ('Path.is_file', "
                                       "'4f7cfeeaf747854a0a17f4fa6b2181e08de541609edf2ad148ca93567cf73d6a/.index'), "
                                       "('mapper.__contains__', '.index'), ('mapper.__getitem__', "
                                       "'.index')]"),
 "read_cache/''/remote_invalid/positional": (('raises',
                                              'ceos_alos2.sar_image.caching.CachingError',
                                              'invalid or incomplete cache file'),
                                             "[('mapper.root',), ('mapper.root',), ('Path.is_file', "
                                             "'4f7cfeeaf747854a0a17f4fa6b2181e08de541609edf2ad148ca93567cf73d6a/.index'), "
                                             "('mapper.__contains__', '.index'), ('mapper.__getitem__', "
                                             "'.index')]"),
 "read_cache/''/remote_empty/2": (('raises',
                                   'ceos_alos2.sar_image.caching.CachingError',
                                   'invalid or incomplete cache file'),
                                  "[('mapper.root',), ('mapper.root',), ('Path.is_file', "
                                  "'4f7cfeeaf747854a0a17f4fa6b2181e08de541609edf2ad148ca93567cf73d6a/.index'), "
                                  "('mapper.__contains__', '.index'), ('mapper.__getitem__', '.index')]"),
 "read_cache/''/remote_empty/None": (('raises',
                                      'ceos_alos2.sar_image.caching.CachingError',
                                      'invalid or incomplete cache file'),
                                     "[('mapper.root',), ('mapper.root',), ('Path.is_file', "
                                     "'4f7cfeeaf747854a0a17f4fa6b2181e08de541609edf2ad148ca93567cf73d6a/.index'), "
                                     "('mapper.__contains__', '.index'), ('mapper.__getitem__', '.index')]"),
 "read_cache/''/remote_empty/positional": (('raises',
                                            'ceos_alos2.sar_image.caching.CachingError',
                                            'invalid or incomplete cache file'),
                                           "[('mapper.root',), ('mapper.root',), ('Path.is_file', "
                                           "'4f7cfeeaf747854a0a17f4fa6b2181e08de541609edf2ad148ca93567cf73d6a/.index'), "
                                           "('mapper.__contains__', '.index'), ('mapper.__getitem__', "
                                           "'.index')]"),
 "read_cache/''/remote_not_utf8/2": (('raises',
                                      'builtins.UnicodeDecodeError',
                                      "'utf-8' codec can't decode byte 0xff in position 0: invalid start "
                                      'byte'),
                                     "[('mapper.root',), ('mapper.root',), ('Path.is_file', "
                                     "'4f7cfeeaf747854a0a17f4fa6b2181e08de541609edf2ad148ca93567cf73d6a/.index'), "
                                     "('mapper.__contains__', '.index'), ('mapper.__getitem__', '.index')]"),
 "read_cache/''/remote_not_utf8/None": (('raises',
                                         'builtins.UnicodeDecodeError',
                                         "'utf-8' codec can't decode byte 0xff in position 0: invalid start "
                                         'byte'),
                                        "[('mapper.root',), ('mapper.root',), ('Path.is_file', "
                                        "'4f7cfeeaf747854a0a17f4fa6b2181e08de541609edf2ad148ca93567cf73d6a/.index'), "
                                        "('mapper.__contains__', '.index'), ('mapper.__getitem__', "
                                        "'.index')]"),
 "read_cache/''/remote_not_utf8/positional": (('raises',
                                               'builtins.UnicodeDecodeError',
                                               "'utf-8' codec can't decode byte 0xff in position 0: invalid "
                                               'start byte'),
                                              "[('mapper.root',), ('mapper.root',), ('Path.is_file', "
                                              "'4f7cfeeaf747854a0a17f4fa6b2181e08de541609edf2ad148ca93567cf73d6a/.index'), "
                                              "('mapper.__contains__', '.index'), ('mapper.__getitem__', "
                                              "'.index')]"),
 "read_cache/''/remote_str/2": (('raises',
                                 'builtins.AttributeError',
                                 "'str' object has no attribute 'decode'"),
                                "[('mapper.root',), ('mapper.root',), ('Path.is_file', "
                                "'4f7cfeeaf747854a0a17f4fa6b2181e08de541609edf2ad148ca93567cf73d6a/.index'), "
                                "('mapper.__contains__', '.index'), ('mapper.__getitem__', '.index')]"),
 "read_cache/''/remote_str/None": (('raises',
                                    'builtins.AttributeError',
                                    "'str' object has no attribute 'decode'"),
                                   "[('mapper.root',), ('mapper.root',), ('Path.is_file', "
                                   "'4f7cfeeaf747854a0a17f4fa6b2181e08de541609edf2ad148ca93567cf73d6a/.index'), "
                                   "('mapper.__contains__', '.index'), ('mapper.__getitem__', '.index')]"),
 "read_cache/''/remote_str/positional": (('raises',
                                          'builtins.AttributeError',
                                          "'str' object has no attribute 'decode'"),
                                         "[('mapper.root',), ('mapper.root',), ('Path.is_file', "
                                         "'4f7cfeeaf747854a0a17f4fa6b2181e08de541609edf2ad148ca93567cf73d6a/.index'), "
                                         "('mapper.__contains__', '.index'), ('mapper.__getitem__', "
                                         "'.index')]"),
 "read_cache/''/remote_under_basename_only/2": (('raises',
                                                 'ceos_alos2.sar_image.caching.CachingError',
                                                 'no cache found for '),
                                                "[('mapper.root',), ('mapper.root',), ('Path.is_file', "
                                                "'4f7cfeeaf747854a0a17f4fa6b2181e08de541609edf2ad148ca93567cf73d6a/.index'), "
                                                "('mapper.__contains__', '.index')]"),
 "read_cache/''/remote_under_basename_only/None": (('raises',
                                                    'ceos_alos2.sar_image.caching.CachingError',
                                                    'no cache found for '),
                                                   "[('mapper.root',), ('mapper.root',), ('Path.is_file', "
                                                   "'4f7cfeeaf747854a0a17f4fa6b2181e08de541609edf2ad148ca93567cf73d6a/.index'), "
                                                   "('mapper.__contains__', '.index')]"),
 "read_cache/''/remote_under_basename_only/positional": (('raises',
                                                          'ceos_alos2.sar_image.caching.CachingError',
                                                          'no cache found for '),
                                                         "[('mapper.root',), ('mapper.root',), "
                                                         "('Path.is_file', "
                                                         "'4f7cfeeaf747854a0a17f4fa6b2181e08de541609edf2ad148ca93567cf73d6a/.index'), "
                                                         "('mapper.__contains__', '.index')]"),
 'read_cache/errors/is_file_oserror': (('raises', 'builtins.PermissionError', 'denied'),
                                       "[('mapper.root',), ('mapper.root',), ('Path.is_file', "
                                       "'4f7cfeeaf747854a0a17f4fa6b2181e08de541609edf2ad148ca93567cf73d6a/image.index')]"),
 'read_cache/errors/read_text_oserror': (('raises', 'builtins.OSError', 'gone'),
                                         "[('mapper.root',), ('mapper.root',), ('Path.is_file', "
                                         "'4f7cfeeaf747854a0a17f4fa6b2181e08de541609edf2ad148ca93567cf73d6a/image.index'), "
                                         "('Path.read_text', "
                                         "'4f7cfeeaf747854a0a17f4fa6b2181e08de541609edf2ad148ca93567cf73d6a/image.index', "
                                         '(), {})]'),
 'read_cache/errors/read_text_unicode': (('raises',
                                          'builtins.UnicodeDecodeError',
                                          "'utf-8' codec can't decode byte 0xff in position 0: bad"),
                                         "[('mapper.root',), ('mapper.root',), ('Path.is_file', "
                                         "'4f7cfeeaf747854a0a17f4fa6b2181e08de541609edf2ad148ca93567cf73d6a/image.index'), "
                                         "('Path.read_text', "
                                         "'4f7cfeeaf747854a0a17f4fa6b2181e08de541609edf2ad148ca93567cf73d6a/image.index', "
                                         '(), {})]'),
 'read_cache/errors/read_text_filenotfound': (('raises', 'builtins.FileNotFoundError', 'vanished'),
                                              "[('mapper.root',), ('mapper.root',), ('Path.is_file', "
                                              "'4f7cfeeaf747854a0a17f4fa6b2181e08de541609edf2ad148ca93567cf73d6a/image.index'), "
                                              "('Path.read_text', "
                                              "'4f7cfeeaf747854a0a17f4fa6b2181e08de541609edf2ad148ca93567cf73d6a/image.index', "
                                              '(), {})]'),
 'read_cache/errors/contains_raises': (('raises', 'builtins.ConnectionError', 'offline'),
                                       "[('mapper.root',), ('mapper.root',), ('Path.is_file', "
                                       "'4f7cfeeaf747854a0a17f4fa6b2181e08de541609edf2ad148ca93567cf73d6a/image.index'), "
                                       "('mapper.__contains__', 'image.index')]"),
 'read_cache/errors/getitem_keyerror': (('raises', 'builtins.KeyError', "'image.index'"),
                                        "[('mapper.root',), ('mapper.root',), ('Path.is_file', "
                                        "'4f7cfeeaf747854a0a17f4fa6b2181e08de541609edf2ad148ca93567cf73d6a/image.index'), "
                                        "('mapper.__contains__', 'image.index'), ('mapper.__getitem__', "
                                        "'image.index')]"),
 'read_cache/errors/getitem_filenotfound': (('raises', 'builtins.FileNotFoundError', 'image.index'),
                                            "[('mapper.root',), ('mapper.root',), ('Path.is_file', "
                                            "'4f7cfeeaf747854a0a17f4fa6b2181e08de541609edf2ad148ca93567cf73d6a/image.index'), "
                                            "('mapper.__contains__', 'image.index'), ('mapper.__getitem__', "
                                            "'image.index')]"),
 'read_cache/errors/root_none': (('raises',
                                  'builtins.AttributeError',
                                  "'NoneType' object has no attribute 'encode'"),
                                 "[('mapper.root',), ('mapper.root',)]"),
 'read_cache/errors/no_root': (('raises',
                                'builtins.AttributeError',
                                "'object' object has no attribute 'root'"),
                               '[]'),
 'read_cache/errors/missing_rpc': (('raises',
                                    'builtins.TypeError',
                                    'read_cache() missing 1 required positional argument: '
                                    "'records_per_chunk'"),
                                   '[]'),
 "read_cache/roots/'s3://bucket/a'": (('returns',
                                       ('ceos_alos2.hierarchy.Group',
                                        ('path', ('builtins.str', "'/'")),
                                        ('url', ('builtins.str', "'s3://bucket/data'")),
                                        ('attrs', ('builtins.dict', [])),
                                        ('data', ('builtins.dict', [])))),
                                      "[('mapper.root',), ('mapper.root',), ('Path.is_file', "
                                      "'77828262d48e29aad10b969aff3b24a7fa6cefce4a5e8ec438e029f4552606f0/image.index'), "
                                      "('mapper.__contains__', 'image.index'), ('mapper.__getitem__', "
                                      "'image.index')]"),
 "read_cache/roots/'s3://bucket/b'": (('returns',
                                       ('ceos_alos2.hierarchy.Group',
                                        ('path', ('builtins.str', "'/'")),
                                        ('url', ('builtins.str', "'s3://bucket/data'")),
                                        ('attrs', ('builtins.dict', [])),
                                        ('data', ('builtins.dict', [])))),
                                      "[('mapper.root',), ('mapper.root',), ('Path.is_file', "
                                      "'f185b00592c873c2e147ca42d70eed0cd88b720a284abeb58c76dac736318ed8/image.index'), "
                                      "('mapper.__contains__', 'image.index'), ('mapper.__getitem__', "
                                      "'image.index')]"),
 "read_cache/roots/''": (('returns',
                          ('ceos_alos2.hierarchy.Group',
                           ('path', ('builtins.str', "'/'")),
                           ('url', ('builtins.str', "'s3://bucket/data'")),
                           ('attrs', ('builtins.dict', [])),
                           ('data', ('builtins.dict', [])))),
                         "[('mapper.root',), ('mapper.root',), ('Path.is_file', "
                         "'e3b0c44298fc1c149afbf4c8996fb92427ae41e4649b934ca495991b7852b855/image.index'), "
                         "('mapper.__contains__', 'image.index'), ('mapper.__getitem__', 'image.index')]"),
 'read_cache/error_details': (('no cache found for some/image',), 'None', 'None', False),
 "create_cache/'image'/group": (('returns', ('builtins.NoneType', 'None')),
                                "[('mapper.root',), ('Path.mkdir', "
                                "'4f7cfeeaf747854a0a17f4fa6b2181e08de541609edf2ad148ca93567cf73d6a', (), "
                                "{'exist_ok': True, 'parents': True}), ('Path.write_text', "
                                "'4f7cfeeaf747854a0a17f4fa6b2181e08de541609edf2ad148ca93567cf73d6a/image.index', "
                                '(\'{"__type__": "group", "url": "s3://bucket/data", "data": {"v": '
                                '{"__type__": "variable", "dims": ["rows", "columns"], "data": {"__type__": '
                                '"backend_array", "root": "/path/to", "url": "file", "shape": {"__type__": '
                                '"tuple", "data": [4, 3]}, "dtype": "int16", "byte_ranges": [{"__type__": '
                                '"tuple", "data": [5, 10]}, {"__type__": "tuple", "data": [15, 20]}, '
                                '{"__type__": "tuple", "data": [25, 30]}, {"__type__": "tuple", "data": [35, '
                                '40]}], "type_code": "IU2"}, "attrs": {"a": {"__type__": "tuple", "data": '
                                '[1, 2]}}}, "t": {"__type__": "variable", "dims": ["t"], "data": '
                                '{"__type__": "array", "dtype": "datetime64[s]", "data": [0, 86400], '
                                '"encoding": {"reference": "2020-01-01T00:00:00", "units": "s"}}, "attrs": '
                                '{}}, "sub": {"__type__": "group", "url": "s3://bucket/data", "data": {"w": '
                                '{"__type__": "variable", "dims": ["x"], "data": {"__type__": "array", '
                                '"dtype": "float64", "data": [1.5, 2.5], "encoding": {}}, "attrs": {}}}, '
                                '"path": "/sub", "attrs": {"k": [1]}}}, "path": "/", "attrs": {"x": {"y": '
                                '{"__type__": "tuple", "data": [1, {"__type__": "tuple", "data": [2, '
                                "3]}]}}}}',), {})]"),
 "create_cache/'image'/empty": (('returns', ('builtins.NoneType', 'None')),
                                "[('mapper.root',), ('Path.mkdir', "
                                "'4f7cfeeaf747854a0a17f4fa6b2181e08de541609edf2ad148ca93567cf73d6a', (), "
                                "{'exist_ok': True, 'parents': True}), ('Path.write_text', "
                                "'4f7cfeeaf747854a0a17f4fa6b2181e08de541609edf2ad148ca93567cf73d6a/image.index', "
                                '(\'{"__type__": "group", "url": "s3://bucket/data", "data": {}, "path": '
                                '"/", "attrs": {}}\',), {})]'),
 "create_cache/'image'/variable": (('returns', ('builtins.NoneType', 'None')),
                                   "[('mapper.root',), ('Path.mkdir', "
                                   "'4f7cfeeaf747854a0a17f4fa6b2181e08de541609edf2ad148ca93567cf73d6a', (), "
                                   "{'exist_ok': True, 'parents': True}), ('Path.write_text', "
                                   "'4f7cfeeaf747854a0a17f4fa6b2181e08de541609edf2ad148ca93567cf73d6a/image.index', "
                                   '(\'{"__type__": "variable", "dims": ["t"], "data": {"__type__": "array", '
                                   '"dtype": "datetime64[s]", "data": [0, 86400], "encoding": {"reference": '
                                   '"2020-01-01T00:00:00", "units": "s"}}, "attrs": {}}\',), {})]'),
 "create_cache/'image'/plain": (('returns', ('builtins.NoneType', 'None')),
                                "[('mapper.root',), ('Path.mkdir', "
                                "'4f7cfeeaf747854a0a17f4fa6b2181e08de541609edf2ad148ca93567cf73d6a', (), "
                                "{'exist_ok': True, 'parents': True}), ('Path.write_text', "
                                "'4f7cfeeaf747854a0a17f4fa6b2181e08de541609edf2ad148ca93567cf73d6a/image.index', "
                                '(\'{"a": {"__type__": "tuple", "data": [1, [2, {"__type__": "tuple", '
                                '"data": [3]}]]}}\',), {})]'),
 "create_cache/'image'/none": (('returns', ('builtins.NoneType', 'None')),
                               "[('mapper.root',), ('Path.mkdir', "
                               "'4f7cfeeaf747854a0a17f4fa6b2181e08de541609edf2ad148ca93567cf73d6a', (), "
                               "{'exist_ok': True, 'parents': True}), ('Path.write_text', "
                               "'4f7cfeeaf747854a0a17f4fa6b2181e08de541609edf2ad148ca93567cf73d6a/image.index', "
                               "('null',), {})]"),
 "create_cache/'image'/unserialisable": (('raises',
                                          'builtins.TypeError',
                                          'Object of type set is not JSON serializable'),
                                         "[('mapper.root',), ('Path.mkdir', "
                                         "'4f7cfeeaf747854a0a17f4fa6b2181e08de541609edf2ad148ca93567cf73d6a', "
                                         "(), {'exist_ok': True, 'parents': True})]"),
 "create_cache/'image'/bytes": (('raises',
                                 'builtins.TypeError',
                                 'Object of type bytes is not JSON serializable'),
                                "[('mapper.root',), ('Path.mkdir', "
                                "'4f7cfeeaf747854a0a17f4fa6b2181e08de541609edf2ad148ca93567cf73d6a', (), "
                                "{'exist_ok': True, 'parents': True})]"),
 "create_cache/'sub/dir/image'/group": (('returns', ('builtins.NoneType', 'None')),
                                        "[('mapper.root',), ('Path.mkdir', "
                                        "'4f7cfeeaf747854a0a17f4fa6b2181e08de541609edf2ad148ca93567cf73d6a', "
                                        "(), {'exist_ok': True, 'parents': True}), ('Path.write_text', "
                                        "'4f7cfeeaf747854a0a17f4fa6b2181e08de541609edf2ad148ca93567cf73d6a/image.index', "
                                        '(\'{"__type__": "group", "url": "s3://bucket/data", "data": {"v": '
                                        '{"__type__": "variable", "dims": ["rows", "columns"], "data": '
                                        '{"__type__": "backend_array", "root": "/path/to", "url": "file", '
                                        '"shape": {"__type__": "tuple", "data": [4, 3]}, "dtype": "int16", '
                                        '"byte_ranges": [{"__type__": "tuple", "data": [5, 10]}, '
                                        '{"__type__": "tuple", "data": [15, 20]}, {"__type__": "tuple", '
                                        '"data": [25, 30]}, {"__type__": "tuple", "data": [35, 40]}], '
                                        '"type_code": "IU2"}, "attrs": {"a": {"__type__": "tuple", "data": '
                                        '[1, 2]}}}, "t": {"__type__": "variable", "dims": ["t"], "data": '
                                        '{"__type__": "array", "dtype": "datetime64[s]", "data": [0, 86400], '
                                        '"encoding": {"reference": "2020-01-01T00:00:00", "units": "s"}}, '
                                        '"attrs": {}}, "sub": {"__type__": "group", "url": '
                                        '"s3://bucket/data", "data": {"w": {"__type__": "variable", "dims": '
                                        '["x"], "data": {"__type__": "array", "dtype": "float64", "data": '
                                        '[1.5, 2.5], "encoding": {}}, "attrs": {}}}, "path": "/sub", '
                                        '"attrs": {"k": [1]}}}, "path": "/", "attrs": {"x": {"y": '
                                        '{"__type__": "tuple", "data": [1, {"__type__": "tuple", "data": [2, '
                                        "3]}]}}}}',), {})]"),
 "create_cache/'sub/dir/image'/empty": (('returns', ('builtins.NoneType', 'None')),
                                        "[('mapper.root',), ('Path.mkdir', "
                                        "'4f7cfeeaf747854a0a17f4fa6b2181e08de541609edf2ad148ca93567cf73d6a', "
                                        "(), {'exist_ok': True, 'parents': True}), ('Path.write_text', "
                                        "'4f7cfeeaf747854a0a17f4fa6b2181e08de541609edf2ad148ca93567cf73d6a/image.index', "
                                        '(\'{"__type__": "group", "url": "s3://bucket/data", "data": {}, '
                                        '"path": "/", "attrs": {}}\',), {})]'),
 "create_cache/'sub/dir/image'/variable": (('returns', ('builtins.NoneType', 'None')),
                                           "[('mapper.root',), ('Path.mkdir', "
                                           "'4f7cfeeaf747854a0a17f4fa6b2181e08de541609edf2ad148ca93567cf73d6a', "
                                           "(), {'exist_ok': True, 'parents': True}), ('Path.write_text', "
                                           "'4f7cfeeaf747854a0a17f4fa6b2181e08de541609edf2ad148ca93567cf73d6a/image.index', "
                                           '(\'{"__type__": "variable", "dims": ["t"], "data": {"__type__": '
                                           '"array", "dtype": "datetime64[s]", "data": [0, 86400], '
                                           '"encoding": {"reference": "2020-01-01T00:00:00", "units": "s"}}, '
                                           '"attrs": {}}\',), {})]'),
 "create_cache/'sub/dir/image'/plain": (('returns', ('builtins.NoneType', 'None')),
                                        "[('mapper.root',), ('Path.mkdir', "
                                        "'4f7cfeeaf747854a0a17f4fa6b2181e08de541609edf2ad148ca93567cf73d6a', "
                                        "(), {'exist_ok': True, 'parents': True}), ('Path.write_text', "
                                        "'4f7cfeeaf747854a0a17f4fa6b2181e08de541609edf2ad148ca93567cf73d6a/image.index', "
                                        '(\'{"a": {"__type__": "tuple", "data": [1, [2, {"__type__": '
                                        '"tuple", "data": [3]}]]}}\',), {})]'),
 "create_cache/'sub/dir/image'/none": (('returns', ('builtins.NoneType', 'None')),
                                       "[('mapper.root',), ('Path.mkdir', "
                                       "'4f7cfeeaf747854a0a17f4fa6b2181e08de541609edf2ad148ca93567cf73d6a', "
                                       "(), {'exist_ok': True, 'parents': True}), ('Path.write_text', "
                                       "'4f7cfeeaf747854a0a17f4fa6b2181e08de541609edf2ad148ca93567cf73d6a/image.index', "
                                       "('null',), {})]"),
 "create_cache/'sub/dir/image'/unserialisable": (('raises',
                                                  'builtins.TypeError',
                                                  'Object of type set is not JSON serializable'),
                                                 "[('mapper.root',), ('Path.mkdir', "
                                                 "'4f7cfeeaf747854a0a17f4fa6b2181e08de541609edf2ad148ca93567cf73d6a', "
                                                 "(), {'exist_ok': True, 'parents': True})]"),
 "create_cache/'sub/dir/image'/bytes": (('raises',
                                         'builtins.TypeError',
                                         'Object of type bytes is not JSON serializable'),
                                        "[('mapper.root',), ('Path.mkdir', "
                                        "'4f7cfeeaf747854a0a17f4fa6b2181e08de541609edf2ad148ca93567cf73d6a', "
                                        "(), {'exist_ok': True, 'parents': True})]"),
 "create_cache/'/abs/image'/group": (('returns', ('builtins.NoneType', 'None')),
                                     "[('mapper.root',), ('Path.mkdir', "
                                     "'4f7cfeeaf747854a0a17f4fa6b2181e08de541609edf2ad148ca93567cf73d6a', "
                                     "(), {'exist_ok': True, 'parents': True}), ('Path.write_text', "
                                     "'4f7cfeeaf747854a0a17f4fa6b2181e08de541609edf2ad148ca93567cf73d6a/image.index', "
                                     '(\'{"__type__": "group", "url": "s3://bucket/data", "data": {"v": '
                                     '{"__type__": "variable", "dims": ["rows", "columns"], "data": '
                                     '{"__type__": "backend_array", "root": "/path/to", "url": "file", '
                                     '"shape": {"__type__": "tuple", "data": [4, 3]}, "dtype": "int16", '
                                     '"byte_ranges": [{"__type__": "tuple", "data": [5, 10]}, {"__type__": '
                                     '"tuple", "data": [15, 20]}, {"__type__": "tuple", "data": [25, 30]}, '
                                     '{"__type__": "tuple", "data": [35, 40]}], "type_code": "IU2"}, '
                                     '"attrs": {"a": {"__type__": "tuple", "data": [1, 2]}}}, "t": '
                                     '{"__type__": "variable", "dims": ["t"], "data": {"__type__": "array", '
                                     '"dtype": "datetime64[s]", "data": [0, 86400], "encoding": '
                                     '{"reference": "2020-01-01T00:00:00", "units": "s"}}, "attrs": {}}, '
                                     '"sub": {"__type__": "group", "url": "s3://bucket/data", "data": {"w": '
                                     '{"__type__": "variable", "dims": ["x"], "data": {"__type__": "array", '
                                     '"dtype": "float64", "data": [1.5, 2.5], "encoding": {}}, "attrs": '
                                     '{}}}, "path": "/sub", "attrs": {"k": [1]}}}, "path": "/", "attrs": '
                                     '{"x": {"y": {"__type__": "tuple", "data": [1, {"__type__": "tuple", '
                                     '"data": [2, 3]}]}}}}\',), {})]'),
 "create_cache/'/abs/image'/empty": (('returns', ('builtins.NoneType', 'None')),
                                     "[('mapper.root',), ('Path.mkdir', "
                                     "'4f7cfeeaf747854a0a17f4fa6b2181e08de541609edf2ad148ca93567cf73d6a', "
                                     "(), {'exist_ok': True, 'parents': True}), ('Path.write_text', "
                                     "'4f7cfeeaf747854a0a17f4fa6b2181e08de541609edf2ad148ca93567cf73d6a/image.index', "
                                     '(\'{"__type__": "group", "url": "s3://bucket/data", "data": {}, '
                                     '"path": "/", "attrs": {}}\',), {})]'),
 "create_cache/'/abs/image'/variable": (('returns', ('builtins.NoneType', 'None')),
                                        "[('mapper.root',), ('Path.mkdir', "
                                        "'4f7cfeeaf747854a0a17f4fa6b2181e08de541609edf2ad148ca93567cf73d6a', "
                                        "(), {'exist_ok': True, 'parents': True}), ('Path.write_text', "
                                        "'4f7cfeeaf747854a0a17f4fa6b2181e08de541609edf2ad148ca93567cf73d6a/image.index', "
                                        '(\'{"__type__": "variable", "dims": ["t"], "data": {"__type__": '
                                        '"array", "dtype": "datetime64[s]", "data": [0, 86400], "encoding": '
                                        '{"reference": "2020-01-01T00:00:00", "units": "s"}}, "attrs": '
                                        "{}}',), {})]"),
 "create_cache/'/abs/image'/plain": (('returns', ('builtins.NoneType', 'None')),
                                     "[('mapper.root',), ('Path.mkdir', "
                                     "'4f7cfeeaf747854a0a17f4fa6b2181e08de541609edf2ad148ca93567cf73d6a', "
                                     "(), {'exist_ok': True, 'parents': True}), ('Path.write_text', "
                                     "'4f7cfeeaf747854a0a17f4fa6b2181e08de541609edf2ad148ca93567cf73d6a/image.index', "
                                     '(\'{"a": {"__type__": "tuple", "data": [1, [2, {"__type__": "tuple", '
                                     '"data": [3]}]]}}\',), {})]'),
 "create_cache/'/abs/image'/none": (('returns', ('builtins.NoneType', 'None')),
                                    "[('mapper.root',), ('Path.mkdir', "
                                    "'4f7cfeeaf747854a0a17f4fa6b2181e08de541609edf2ad148ca93567cf73d6a', (), "
                                    "{'exist_ok': True, 'parents': True}), ('Path.write_text', "
                                    "'4f7cfeeaf747854a0a17f4fa6b2181e08de541609edf2ad148ca93567cf73d6a/image.index', "
                                    "('null',), {})]"),
 "create_cache/'/abs/image'/unserialisable": (('raises',
                                               'builtins.TypeError',
                                               'Object of type set is not JSON serializable'),
                                              "[('mapper.root',), ('Path.mkdir', "
                                              "'4f7cfeeaf747854a0a17f4fa6b2181e08de541609edf2ad148ca93567cf73d6a', "
                                              "(), {'exist_ok': True, 'parents': True})]"),
 "create_cache/'/abs/image'/bytes": (('raises',
                                      'builtins.TypeError',
                                      'Object of type bytes is not JSON serializable'),
                                     "[('mapper.root',), ('Path.mkdir', "
                                     "'4f7cfeeaf747854a0a17f4fa6b2181e08de541609edf2ad148ca93567cf73d6a', "
                                     "(), {'exist_ok': True, 'parents': True})]"),
 "create_cache/'dir/'/group": (('returns', ('builtins.NoneType', 'None')),
                               "[('mapper.root',), ('Path.mkdir', "
                               "'4f7cfeeaf747854a0a17f4fa6b2181e08de541609edf2ad148ca93567cf73d6a', (), "
                               "{'exist_ok': True, 'parents': True}), ('Path.write_text', "
                               "'4f7cfeeaf747854a0a17f4fa6b2181e08de541609edf2ad148ca93567cf73d6a/.index', "
                               '(\'{"__type__": "group", "url": "s3://bucket/data", "data": {"v": '
                               '{"__type__": "variable", "dims": ["rows", "columns"], "data": {"__type__": '
                               '"backend_array", "root": "/path/to", "url": "file", "shape": {"__type__": '
                               '"tuple", "data": [4, 3]}, "dtype": "int16", "byte_ranges": [{"__type__": '
                               '"tuple", "data": [5, 10]}, {"__type__": "tuple", "data": [15, 20]}, '
                               '{"__type__": "tuple", "data": [25, 30]}, {"__type__": "tuple", "data": [35, '
                               '40]}], "type_code": "IU2"}, "attrs": {"a": {"__type__": "tuple", "data": [1, '
                               '2]}}}, "t": {"__type__": "variable", "dims": ["t"], "data": {"__type__": '
                               '"array", "dtype": "datetime64[s]", "data": [0, 86400], "encoding": '
                               '{"reference": "2020-01-01T00:00:00", "units": "s"}}, "attrs": {}}, "sub": '
                               '{"__type__": "group", "url": "s3://bucket/data", "data": {"w": {"__type__": '
                               '"variable", "dims": ["x"], "data": {"__type__": "array", "dtype": "float64", '
                               '"data": [1.5, 2.5], "encoding": {}}, "attrs": {}}}, "path": "/sub", "attrs": '
                               '{"k": [1]}}}, "path": "/", "attrs": {"x": {"y": {"__type__": "tuple", '
                               '"data": [1, {"__type__": "tuple", "data": [2, 3]}]}}}}\',), {})]'),
 "create_cache/'dir/'/empty": (('returns', ('builtins.NoneType', 'None')),
                               "[('mapper.root',), ('Path.mkdir', "
                               "'4f7cfeeaf747854a0a17f4fa6b2181e08de541609edf2ad148ca93567cf73d6a', (), "
                               "{'exist_ok': True, 'parents': True}), ('Path.write_text', "
                               "'4f7cfeeaf747854a0a17f4fa6b2181e08de541609edf2ad148ca93567cf73d6a/.index', "
                               '(\'{"__type__": "group", "url": "s3://bucket/data", "data": {}, "path": "/", '
                               '"attrs": {}}\',), {})]'),
 "create_cache/'dir/'/variable": (('returns', ('builtins.NoneType', 'None')),
                                  "[('mapper.root',), ('Path.mkdir', "
                                  "'4f7cfeeaf747854a0a17f4fa6b2181e08de541609edf2ad148ca93567cf73d6a', (), "
                                  "{'exist_ok': True, 'parents': True}), ('Path.write_text', "
                                  "'4f7cfeeaf747854a0a17f4fa6b2181e08de541609edf2ad148ca93567cf73d6a/.index', "
                                  '(\'{"__type__": "variable", "dims": ["t"], "data": {"__type__": "array", '
                                  '"dtype": "datetime64[s]", "data": [0, 86400], "encoding": {"reference": '
                                  '"2020-01-01T00:00:00", "units": "s"}}, "attrs": {}}\',), {})]'),
 "create_cache/'dir/'/plain": (('returns', ('builtins.NoneType', 'None')),
                               "[('mapper.root',), ('Path.mkdir', "
                               "'4f7cfeeaf747854a0a17f4fa6b2181e08de541609edf2ad148ca93567cf73d6a', (), "
                               "{'exist_ok': True, 'parents': True}), ('Path.write_text', "
                               "'4f7cfeeaf747854a0a17f4fa6b2181e08de541609edf2ad148ca93567cf73d6a/.index', "
                               '(\'{"a": {"__type__": "tuple", "data": [1, [2, {"__type__": "tuple", "data": '
                               "[3]}]]}}',), {})]"),
 "create_cache/'dir/'/none": (('returns', ('builtins.NoneType', 'None')),
                              "[('mapper.root',), ('Path.mkdir', "
                              "'4f7cfeeaf747854a0a17f4fa6b2181e08de541609edf2ad148ca93567cf73d6a', (), "
                              "{'exist_ok': True, 'parents': True}), ('Path.write_text', "
                              "'4f7cfeeaf747854a0a17f4fa6b2181e08de541609edf2ad148ca93567cf73d6a/.index', "
                              "('null',), {})]"),
 "create_cache/'dir/'/unserialisable": (('raises',
                                         'builtins.TypeError',
                                         'Object of type set is not JSON serializable'),
                                        "[('mapper.root',), ('Path.mkdir', "
                                        "'4f7cfeeaf747854a0a17f4fa6b2181e08de541609edf2ad148ca93567cf73d6a', "
                                        "(), {'exist_ok': True, 'parents': True})]"),
 "create_cache/'dir/'/bytes": (('raises',
                                'builtins.TypeError',
                                'Object of type bytes is not JSON serializable'),
                               "[('mapper.root',), ('Path.mkdir', "
                               "'4f7cfeeaf747854a0a17f4fa6b2181e08de541609edf2ad148ca93567cf73d6a', (), "
                               "{'exist_ok': True, 'parents': True})]"),
 "create_cache/''/group": (('returns', ('builtins.NoneType', 'None')),
                           "[('mapper.root',), ('Path.mkdir', "
                           "'4f7cfeeaf747854a0a17f4fa6b2181e08de541609edf2ad148ca93567cf73d6a', (), "
                           "{'exist_ok': True, 'parents': True}), ('Path.write_text', "
                           "'4f7cfeeaf747854a0a17f4fa6b2181e08de541609edf2ad148ca93567cf73d6a/.index', "
                           '(\'{"__type__": "group", "url": "s3://bucket/data", "data": {"v": {"__type__": '
                           '"variable", "dims": ["rows", "columns"], "data": {"__type__": "backend_array", '
                           '"root": "/path/to", "url": "file", "shape": {"__type__": "tuple", "data": [4, '
                           '3]}, "dtype": "int16", "byte_ranges": [{"__type__": "tuple", "data": [5, 10]}, '
                           '{"__type__": "tuple", "data": [15, 20]}, {"__type__": "tuple", "data": [25, '
                           '30]}, {"__type__": "tuple", "data": [35, 40]}], "type_code": "IU2"}, "attrs": '
                           '{"a": {"__type__": "tuple", "data": [1, 2]}}}, "t": {"__type__": "variable", '
                           '"dims": ["t"], "data": {"__type__": "array", "dtype": "datetime64[s]", "data": '
                           '[0, 86400], "encoding": {"reference": "2020-01-01T00:00:00", "units": "s"}}, '
                           '"attrs": {}}, "sub": {"__type__": "group", "url": "s3://bucket/data", "data": '
                           '{"w": {"__type__": "variable", "dims": ["x"], "data": {"__type__": "array", '
                           '"dtype": "float64", "data": [1.5, 2.5], "encoding": {}}, "attrs": {}}}, "path": '
                           '"/sub", "attrs": {"k": [1]}}}, "path": "/", "attrs": {"x": {"y": {"__type__": '
                           '"tuple", "data": [1, {"__type__": "tuple", "data": [2, 3]}]}}}}\',), {})]'),
 "create_cache/''/empty": (('returns', ('builtins.NoneType', 'None')),
                           "[('mapper.root',), ('Path.mkdir', "
                           "'4f7cfeeaf747854a0a17f4fa6b2181e08de541609edf2ad148ca93567cf73d6a', (), "
                           "{'exist_ok': True, 'parents': True}), ('Path.write_text', "
                           "'4f7cfeeaf747854a0a17f4fa6b2181e08de541609edf2ad148ca93567cf73d6a/.index', "
                           '(\'{"__type__": "group", "url": "s3://bucket/data", "data": {}, "path": "/", '
                           '"attrs": {}}\',), {})]'),
 "create_cache/''/variable": (('returns', ('builtins.NoneType', 'None')),
                              "[('mapper.root',), ('Path.mkdir', "
                              "'4f7cfeeaf747854a0a17f4fa6b2181e08de541609edf2ad148ca93567cf73d6a', (), "
                              "{'exist_ok': True, 'parents': True}), ('Path.write_text', "
                              "'4f7cfeeaf747854a0a17f4fa6b2181e08de541609edf2ad148ca93567cf73d6a/.index', "
                              '(\'{"__type__": "variable", "dims": ["t"], "data": {"__type__": "array", '
                              '"dtype": "datetime64[s]", "data": [0, 86400], "encoding": {"reference": '
                              '"2020-01-01T00:00:00", "units": "s"}}, "attrs": {}}\',), {})]'),
 "create_cache/''/plain": (('returns', ('builtins.NoneType', 'None')),
                           "[('mapper.root',), ('Path.mkdir', "
                           "'4f7cfeeaf747854a0a17f4fa6b2181e08de541609edf2ad148ca93567cf73d6a', (), "
                           "{'exist_ok': True, 'parents': True}), ('Path.write_text', "
                           "'4f7cfeeaf747854a0a17f4fa6b2181e08de541609edf2ad148ca93567cf73d6a/.index', "
                           '(\'{"a": {"__type__": "tuple", "data": [1, [2, {"__type__": "tuple", "data": '
                           "[3]}]]}}',), {})]"),
 "create_cache/''/none": (('returns', ('builtins.NoneType', 'None')),
                          "[('mapper.root',), ('Path.mkdir', "
                          "'4f7cfeeaf747854a0a17f4fa6b2181e08de541609edf2ad148ca93567cf73d6a', (), "
                          "{'exist_ok': True, 'parents': True}), ('Path.write_text', "
                          "'4f7cfeeaf747854a0a17f4fa6b2181e08de541609edf2ad148ca93567cf73d6a/.index', "
                          "('null',), {})]"),
 "create_cache/''/unserialisable": (('raises',
                                     'builtins.TypeError',
                                     'Object of type set is not JSON serializable'),
                                    "[('mapper.root',), ('Path.mkdir', "
                                    "'4f7cfeeaf747854a0a17f4fa6b2181e08de541609edf2ad148ca93567cf73d6a', (), "
                                    "{'exist_ok': True, 'parents': True})]"),
 "create_cache/''/bytes": (('raises', 'builtins.TypeError', 'Object of type bytes is not JSON serializable'),
                           "[('mapper.root',), ('Path.mkdir', "
                           "'4f7cfeeaf747854a0a17f4fa6b2181e08de541609edf2ad148ca93567cf73d6a', (), "
                           "{'exist_ok': True, 'parents': True})]"),
 'create_cache/mkdir_fails': (('raises', 'builtins.PermissionError', 'read-only'),
                              "[('mapper.root',), ('Path.mkdir', "
                              "'4f7cfeeaf747854a0a17f4fa6b2181e08de541609edf2ad148ca93567cf73d6a', (), "
                              "{'exist_ok': True, 'parents': True})]"),
 'create_cache/mkdir_fails_unserialisable': (('raises', 'builtins.PermissionError', 'read-only'),
                                             "[('mapper.root',), ('Path.mkdir', "
                                             "'4f7cfeeaf747854a0a17f4fa6b2181e08de541609edf2ad148ca93567cf73d6a', "
                                             "(), {'exist_ok': True, 'parents': True})]"),
 'create_cache/write_fails': (('raises', 'builtins.OSError', 'disk full'),
                              "[('mapper.root',), ('Path.mkdir', "
                              "'4f7cfeeaf747854a0a17f4fa6b2181e08de541609edf2ad148ca93567cf73d6a', (), "
                              "{'exist_ok': True, 'parents': True}), ('Path.write_text', "
                              "'4f7cfeeaf747854a0a17f4fa6b2181e08de541609edf2ad148ca93567cf73d6a/image.index', "
                              '(\'{"__type__": "group", "url": "s3://bucket/data", "data": {"v": '
                              '{"__type__": "variable", "dims": ["rows", "columns"], "data": {"__type__": '
                              '"backend_array", "root": "/path/to", "url": "file", "shape": {"__type__": '
                              '"tuple", "data": [4, 3]}, "dtype": "int16", "byte_ranges": [{"__type__": '
                              '"tuple", "data": [5, 10]}, {"__type__": "tuple", "data": [15, 20]}, '
                              '{"__type__": "tuple", "data": [25, 30]}, {"__type__": "tuple", "data": [35, '
                              '40]}], "type_code": "IU2"}, "attrs": {"a": {"__type__": "tuple", "data": [1, '
                              '2]}}}, "t": {"__type__": "variable", "dims": ["t"], "data": {"__type__": '
                              '"array", "dtype": "datetime64[s]", "data": [0, 86400], "encoding": '
                              '{"reference": "2020-01-01T00:00:00", "units": "s"}}, "attrs": {}}, "sub": '
                              '{"__type__": "group", "url": "s3://bucket/data", "data": {"w": {"__type__": '
                              '"variable", "dims": ["x"], "data": {"__type__": "array", "dtype": "float64", '
                              '"data": [1.5, 2.5], "encoding": {}}, "attrs": {}}}, "path": "/sub", "attrs": '
                              '{"k": [1]}}}, "path": "/", "attrs": {"x": {"y": {"__type__": "tuple", "data": '
                              '[1, {"__type__": "tuple", "data": [2, 3]}]}}}}\',), {})]'),
 'create_cache/root_none': (('raises',
                             'builtins.AttributeError',
                             "'NoneType' object has no attribute 'encode'"),
                            "[('mapper.root',)]"),
 'create_cache/kw': (('returns', ('builtins.NoneType', 'None')),
                     "[('mapper.root',), ('Path.mkdir', "
                     "'cea59027f18ebad643825fcd6fe94a423be5c93f12493493fe153fc9e716b1eb', (), {'exist_ok': "
                     "True, 'parents': True}), ('Path.write_text', "
                     "'cea59027f18ebad643825fcd6fe94a423be5c93f12493493fe153fc9e716b1eb/image.index', "
                     '(\'{"__type__": "group", "url": "s3://bucket/data", "data": {}, "path": "/", "attrs": '
                     "{}}',), {})]"),
 'real/miss': ('raises', 'ceos_alos2.sar_image.caching.CachingError', 'no cache found for sub/image'),
 'real/create': ('returns', ('builtins.NoneType', 'None')),
 'real/files': ['cache',
                'cache/7780afa7cff1d3750dd6f33086e7f0ca58d32cc1a164f7fbc86f05b2011c4c7b',
                'cache/7780afa7cff1d3750dd6f33086e7f0ca58d32cc1a164f7fbc86f05b2011c4c7b/image.index'],
 'real/content': ['{"__type__": "group", "url": "s3://bucket/data", "data": {"v": {"__type__": "variable", '
                  '"dims": ["rows", "columns"], "data": {"__type__": "backend_array", "root": "/path/to", '
                  '"url": "file", "shape": {"__type__": "tuple", "data": [4, 3]}, "dtype": "int16", '
                  '"byte_ranges": [{"__type__": "tuple", "data": [5, 10]}, {"__type__": "tuple", "data": '
                  '[15, 20]}, {"__type__": "tuple", "data": [25, 30]}, {"__type__": "tuple", "data": [35, '
                  '40]}], "type_code": "IU2"}, "attrs": {"a": {"__type__": "tuple", "data": [1, 2]}}}, "t": '
                  '{"__type__": "variable", "dims": ["t"], "data": {"__type__": "array", "dtype": '
                  '"datetime64[s]", "data": [0, 86400], "encoding": {"reference": "2020-01-01T00:00:00", '
                  '"units": "s"}}, "attrs": {}}, "sub": {"__type__": "group", "url": "s3://bucket/data", '
                  '"data": {"w": {"__type__": "variable", "dims": ["x"], "data": {"__type__": "array", '
                  '"dtype": "float64", "data": [1.5, 2.5], "encoding": {}}, "attrs": {}}}, "path": "/sub", '
                  '"attrs": {"k": [1]}}}, "path": "/", "attrs": {"x": {"y": {"__type__": "tuple", "data": '
                  '[1, {"__type__": "tuple", "data": [2, 3]}]}}}}'],
 'real/mapper_untouched': [],
 'real/hit_local': ('returns',
                    ('ceos_alos2.hierarchy.Group',
                     ('path', ('builtins.str', "'/'")),
                     ('url', ('builtins.str', "'s3://bucket/data'")),
                     ('attrs',
                      ('builtins.dict',
                       [(('builtins.str', "'x'"),
                         ('builtins.dict',
                          [(('builtins.str', "'y'"),
                            ('builtins.tuple',
                             [('builtins.int', '1'),
                              ('builtins.tuple', [('builtins.int', '2'), ('builtins.int', '3')])]))]))])),
                     ('data',
                      ('builtins.dict',
                       [(('builtins.str', "'v'"),
                         ('ceos_alos2.hierarchy.Variable',
                          ('dims',
                           ('builtins.list', [('builtins.str', "'rows'"), ('builtins.str', "'columns'")])),
                          ('attrs',
                           ('builtins.dict',
                            [(('builtins.str', "'a'"),
                              ('builtins.tuple', [('builtins.int', '1'), ('builtins.int', '2')]))])),
                          ('data',
                           ('ceos_alos2.array.Array',
                            ('fs', 'DirFileSystem', '/path/to', 'LocalFileSystem'),
                            ('url', ('builtins.str', "'file'")),
                            ('byte_ranges',
                             ('builtins.list',
                              [('builtins.tuple', [('builtins.int', '5'), ('builtins.int', '10')]),
                               ('builtins.tuple', [('builtins.int', '15'), ('builtins.int', '20')]),
                               ('builtins.tuple', [('builtins.int', '25'), ('builtins.int', '30')]),
                               ('builtins.tuple', [('builtins.int', '35'), ('builtins.int', '40')])])),
                            ('shape', ('builtins.tuple', [('builtins.int', '4'), ('builtins.int', '3')])),
                            ('dtype', ('builtins.str', "'int16'")),
                            ('type_code', ('builtins.str', "'IU2'")),
                            ('records_per_chunk', ('builtins.int', '2')),
                            ('chunk_offsets',
                             ('builtins.dict',
                              [(('builtins.int', '0'),
                                ('builtins.dict',
                                 [(('builtins.str', "'offset'"), ('builtins.int', '5')),
                                  (('builtins.str', "'size'"), ('builtins.int', '15'))])),
                               (('builtins.int', '1'),
                                ('builtins.dict',
                                 [(('builtins.str', "'offset'"), ('builtins.int', '25')),
                                  (('builtins.str', "'size'"), ('builtins.int', '15'))]))])))))),
                        (('builtins.str', "'t'"),
                         ('ceos_alos2.hierarchy.Variable',
                          ('dims', ('builtins.list', [('builtins.str', "'t'")])),
                          ('attrs', ('builtins.dict', [])),
                          ('data',
                           ('numpy.ndarray',
                            'datetime64[s]',
                            (2,),
                            '[datetime.datetime(2020, 1, 1, 0, 0), datetime.datetime(2020, 1, 2, 0, 0)]')))),
                        (('builtins.str', "'sub'"),
                         ('ceos_alos2.hierarchy.Group',
                          ('path', ('builtins.str', "'/sub'")),
                          ('url', ('builtins.str', "'s3://bucket/data'")),
                          ('attrs',
                           ('builtins.dict',
                            [(('builtins.str', "'k'"), ('builtins.list', [('builtins.int', '1')]))])),
                          ('data',
                           ('builtins.dict',
                            [(('builtins.str', "'w'"),
                              ('ceos_alos2.hierarchy.Variable',
                               ('dims', ('builtins.list', [('builtins.str', "'x'")])),
                               ('attrs', ('builtins.dict', [])),
                               ('data', ('numpy.ndarray', 'float64', (2,), '[1.5, 2.5]'))))]))))])))),
 'real/create_again': ('returns', ('builtins.NoneType', 'None')),
 'real/content_again': ['{"__type__": "group", "url": "s3://bucket/data", "data": {}, "path": "/", "attrs": '
                        '{}}'],
 'real/hit_remote': ('returns',
                     ('ceos_alos2.hierarchy.Group',
                      ('path', ('builtins.str', "'/'")),
                      ('url', ('builtins.str', "'s3://bucket/data'")),
                      ('attrs', ('builtins.dict', [])),
                      ('data', ('builtins.dict', [])))),
 'real/other_root_misses': ('raises',
                            'ceos_alos2.sar_image.caching.CachingError',
                            'no cache found for sub/image'),
 'real/corrupt_local': ('raises',
                        'ceos_alos2.sar_image.caching.CachingError',
                        'invalid or incomplete cache file')}

def test_equivalence():
    run(observe, EXPECTED)


if __name__ == "__main__":
    sys.exit(run(observe, EXPECTED))
