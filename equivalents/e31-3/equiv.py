"""Equivalence check for refactoring 3 (ceos_alos2.sar_image.metadata.extract_attrs).

Run as
    cd /tmp/wt5/e31 && PYTHONPATH=/tmp/wt5/e31 /venv/bin/python _eq/3/equiv.py
(or through pytest). The values in EXPECTED were recorded from the unchanged code at
HEAD with `equiv.py --record`; the script has to pass with and without patch.diff.
"""

import collections
import copy
import datetime
import decimal
import fractions
import hashlib
import pathlib
import pprint
import struct
import sys
import types

import numpy as np

from ceos_alos2.hierarchy import Group, Variable
from ceos_alos2.sar_image import metadata
from ceos_alos2.sar_image.file_descriptor import file_descriptor_record
from ceos_alos2.utils import to_dict


def make_header(fields):
    buf = bytearray(b" " * 720)
    buf[0:12] = struct.pack(">IBBBBI", 1, 50, 192, 18, 18, 720)

    def put(offset, width, value):
        buf[offset : offset + width] = str(value).rjust(width).encode("ascii")

    put(180, 6, 3)
    put(186, 6, 200)
    put(236, 8, 3)
    put(248, 8, 4)
    put(428, 4, "IU2")
    for offset, width, value in fields:
        put(offset, width, value)
    return to_dict(file_descriptor_record.parse(bytes(buf)))


INTERLEAVING = (268, 4)
MAX_RANGE = (440, 8)
BURSTS = (448, 4)
LINES_PER_BURST = (452, 4)
OVERLAP = (456, 4)


def canon(obj):
    if isinstance(obj, Group):
        return (
            f"Group(path={canon(obj.path)}, url={canon(obj.url)}, data={canon(obj.data)},"
            f" attrs={canon(obj.attrs)})"
        )
    if isinstance(obj, Variable):
        return f"Variable(dims={canon(obj.dims)}, data={canon(obj.data)}, attrs={canon(obj.attrs)})"
    if isinstance(obj, np.ndarray):
        return f"ndarray[{obj.dtype}]{obj.tolist()!r}"
    if isinstance(obj, dict):
        items = ", ".join(f"{canon(k)}: {canon(v)}" for k, v in obj.items())
        return f"{type(obj).__name__}{{{items}}}"
    if isinstance(obj, (list, tuple)):
        items = ", ".join(canon(v) for v in obj)
        return f"{type(obj).__name__}[{items}]"
    module = type(obj).__module__
    if module == __name__:
        module = "equiv"
    return f"{module}.{type(obj).__qualname__}:{obj!r}"


def outcome(func, *args, **kwargs):
    before = canon(args)
    try:
        text = "ok " + canon(func(*args, **kwargs))
    except Exception as e:  # noqa: BLE001
        text = f"raised {type(e).__module__}.{type(e).__qualname__}: {e}"
    after = canon(args)
    return text + (" || input unchanged" if before == after else f" || input now {after}")


class Weird:
    """compares unequal to everything, is not a number"""

    def __ne__(self, other):
        return True

    def __eq__(self, other):
        return True

    def __repr__(self):
        return "Weird()"

    __hash__ = object.__hash__


class NeverDifferent:
    def __ne__(self, other):
        return False

    def __float__(self):
        return 3.0

    def __repr__(self):
        return "NeverDifferent()"


class Floatable:
    def __init__(self, value):
        self.value = value

    def __float__(self):
        return self.value

    def __repr__(self):
        return f"Floatable({self.value!r})"


def value_spread():
    nan = float("nan")
    return [
        27,
        0,
        -1,
        -2,
        1,
        -1.0,
        1.5,
        nan,
        -nan,
        float("inf"),
        -float("inf"),
        True,
        False,
        None,
        "",
        "abc",
        "-1",
        b"x",
        [],
        [0],
        [-1],
        [[]],
        (),
        (1, 2),
        {},
        {"a": 1},
        {"number_of_burst_data": 3},
        set(),
        np.int64(-1),
        np.int64(5),
        np.float64("nan"),
        np.float32(-1),
        np.float64(2.5),
        np.array(-1),
        np.array(7),
        np.array([1, 2]),
        np.array([]),
        np.array([-1]),
        np.datetime64("NaT", "ns"),
        decimal.Decimal("-1"),
        decimal.Decimal("NaN"),
        decimal.Decimal("12"),
        fractions.Fraction(-1, 1),
        fractions.Fraction(1, 3),
        1 + 0j,
        -1 + 0j,
        10**400,
        datetime.datetime(2020, 1, 1),
        Weird(),
        NeverDifferent(),
        Floatable(float("nan")),
        Floatable(4.0),
    ]


KNOWN = [
    "interleaving_id",
    "maximum_data_range_of_pixel",
    "number_of_burst_data",
    "number_of_lines_per_burst",
    "number_of_overlap_lines_with_adjacent_bursts",
]


def cases():
    out = {}

    # parsed file descriptors
    spreads = {
        "blank": [],
        "l15": [(*MAX_RANGE, 65535), (*INTERLEAVING, "BSQ")],
        "l11-specan": [(*BURSTS, 5), (*LINES_PER_BURST, 300), (*OVERLAP, 12), (*INTERLEAVING, "BSQ")],
        "zeros": [(*MAX_RANGE, 0), (*BURSTS, 0), (*LINES_PER_BURST, 0), (*OVERLAP, 0)],
        "minus-one": [(*MAX_RANGE, -1), (*BURSTS, -1), (*LINES_PER_BURST, -1), (*OVERLAP, -1)],
        "negative": [(*MAX_RANGE, -5), (*BURSTS, -2), (*LINES_PER_BURST, -3), (*OVERLAP, -4)],
        "all": [(*MAX_RANGE, 255), (*BURSTS, 1), (*LINES_PER_BURST, 2), (*OVERLAP, 3), (*INTERLEAVING, "BIL")],
        "no-interleaving": [(*INTERLEAVING, ""), (*MAX_RANGE, 7)],
    }
    for name, fields in spreads.items():
        header = make_header(fields)
        out[f"parsed-{name}"] = outcome(metadata.extract_attrs, header)
        out[f"parsed-{name}-kw"] = outcome(metadata.extract_attrs, header=header)

    # hand-written headers: every known attribute with every value, top-level and nested
    for key in KNOWN + ["unknown_attribute", "preamble", "valid_range"]:
        for index, value in enumerate(value_spread()):
            out[f"top-{key}-{index}"] = outcome(metadata.extract_attrs, {key: value})
            out[f"nested-{key}-{index}"] = outcome(
                metadata.extract_attrs, {"section": {"other": 1, key: value}, "last": 2}
            )

    everything = {key: index + 1 for index, key in enumerate(KNOWN)}
    out["order-1"] = outcome(metadata.extract_attrs, everything)
    out["order-2"] = outcome(metadata.extract_attrs, dict(reversed(list(everything.items()))))
    out["order-3"] = outcome(
        metadata.extract_attrs,
        {
            "a": {"number_of_burst_data": 1, "x": 0},
            "maximum_data_range_of_pixel": 9,
            "b": {"interleaving_id": "BSQ", "number_of_burst_data": 2},
            "valid_range": "explicit",
        },
    )
    out["order-4"] = outcome(
        metadata.extract_attrs,
        {"valid_range": "explicit", "s": {"maximum_data_range_of_pixel": 9}},
    )
    out["order-5"] = outcome(
        metadata.extract_attrs,
        {"maximum_data_range_of_pixel": 9, "s": {"valid_range": "explicit"}},
    )
    out["order-6"] = outcome(
        metadata.extract_attrs,
        {"maximum_data_range_of_pixel": -1, "valid_range": [], "number_of_burst_data": 2},
    )
    out["preamble-top-dict"] = outcome(
        metadata.extract_attrs, {"preamble": {"number_of_burst_data": 4}, "number_of_lines_per_burst": 1}
    )
    out["preamble-nested"] = outcome(
        metadata.extract_attrs, {"s": {"preamble": {"number_of_burst_data": 4}, "number_of_burst_data": 5}}
    )
    out["preamble-nested-twice"] = outcome(
        metadata.extract_attrs, {"s": {"t": {"number_of_burst_data": 4}}, "number_of_burst_data": {"u": 1}}
    )
    out["known-as-section"] = outcome(
        metadata.extract_attrs,
        {"interleaving_id": {"number_of_burst_data": 4, "interleaving_id": "x"}},
    )
    out["empty"] = outcome(metadata.extract_attrs, {})
    out["non-str-keys"] = outcome(
        metadata.extract_attrs, {1: 2, (1, 2): 3, None: 4, "number_of_burst_data": 5, 2.5: {"interleaving_id": "q"}}
    )
    out["ordered-dict"] = outcome(
        metadata.extract_attrs, collections.OrderedDict(number_of_burst_data=5, preamble=1)
    )
    out["defaultdict"] = outcome(
        metadata.extract_attrs, collections.defaultdict(list, number_of_burst_data=5)
    )
    out["mappingproxy"] = outcome(
        metadata.extract_attrs, types.MappingProxyType({"number_of_burst_data": 5})
    )
    out["chainmap"] = outcome(
        metadata.extract_attrs, collections.ChainMap({"number_of_burst_data": 5}, {"interleaving_id": "a"})
    )
    for index, bad in enumerate((None, 1, "abc", [], [("a", 1)], (), set(), b"ab")):
        out[f"not-a-mapping-{index}"] = outcome(metadata.extract_attrs, bad)

    # fresh containers on every call
    header = {"maximum_data_range_of_pixel": 5, "number_of_burst_data": 1}
    first = metadata.extract_attrs(header)
    first["valid_range"].append(99)
    first["extra"] = 1
    second = metadata.extract_attrs(header)
    out["fresh"] = canon([first, second, first is second, first["valid_range"] is second["valid_range"]])
    shared = [1, 2]
    result = metadata.extract_attrs({"number_of_burst_data": shared, "interleaving_id": shared})
    out["identity"] = repr(
        [result["number_of_burst_data"] is shared, result["interleaving_id"] is shared, type(result).__name__]
    )

    # through transform_metadata
    lines = [
        {"scan_id": 1, "sar_image_data_line_number": 1, "prf": (1, {"units": "mHz"}), "data": {"start": 5, "stop": 21}},
        {"scan_id": 1, "sar_image_data_line_number": 2, "prf": (2, {"units": "mHz"}), "data": {"start": 25, "stop": 41}},
    ]
    for name, fields in spreads.items():
        header = make_header(fields)
        out[f"transform-{name}"] = outcome(metadata.transform_metadata, header, copy.deepcopy(lines))
    conflict = make_header(spreads["all"])
    conflict["extra"] = {"number_of_burst_data": 77}
    out["transform-conflict"] = outcome(
        metadata.transform_metadata,
        conflict,
        [{"interleaving_id": "line", "scan_id": 4, "data": {"start": 0, "stop": 1}}],
    )

    return out


def digest(text):
    if len(text) <= 400:
        return text
    return f"sha256:{hashlib.sha256(text.encode()).hexdigest()} len={len(text)}"


# EXPECTED-BEGIN
EXPECTED = {'parsed-blank': "ok dict{builtins.str:'interleaving_id': builtins.str:''} || input unchanged",
 'parsed-blank-kw': "ok dict{builtins.str:'interleaving_id': builtins.str:''} || input unchanged",
 'parsed-l15': "ok dict{builtins.str:'interleaving_id': builtins.str:'BSQ', "
               "builtins.str:'valid_range': list[builtins.int:0, builtins.int:65535]} || input "
               'unchanged',
 'parsed-l15-kw': "ok dict{builtins.str:'interleaving_id': builtins.str:'BSQ', "
                  "builtins.str:'valid_range': list[builtins.int:0, builtins.int:65535]} || input "
                  'unchanged',
 'parsed-l11-specan': "ok dict{builtins.str:'interleaving_id': builtins.str:'BSQ', "
                      "builtins.str:'number_of_burst_data': builtins.int:5, "
                      "builtins.str:'number_of_lines_per_burst': builtins.int:300, "
                      "builtins.str:'number_of_overlap_lines_with_adjacent_bursts': "
                      'builtins.int:12} || input unchanged',
 'parsed-l11-specan-kw': "ok dict{builtins.str:'interleaving_id': builtins.str:'BSQ', "
                         "builtins.str:'number_of_burst_data': builtins.int:5, "
                         "builtins.str:'number_of_lines_per_burst': builtins.int:300, "
                         "builtins.str:'number_of_overlap_lines_with_adjacent_bursts': "
                         'builtins.int:12} || input unchanged',
 'parsed-zeros': "ok dict{builtins.str:'interleaving_id': builtins.str:'', "
                 "builtins.str:'valid_range': list[builtins.int:0, builtins.int:0], "
                 "builtins.str:'number_of_burst_data': builtins.int:0, "
                 "builtins.str:'number_of_lines_per_burst': builtins.int:0, "
                 "builtins.str:'number_of_overlap_lines_with_adjacent_bursts': builtins.int:0} || "
                 'input unchanged',
 'parsed-zeros-kw': "ok dict{builtins.str:'interleaving_id': builtins.str:'', "
                    "builtins.str:'valid_range': list[builtins.int:0, builtins.int:0], "
                    "builtins.str:'number_of_burst_data': builtins.int:0, "
                    "builtins.str:'number_of_lines_per_burst': builtins.int:0, "
                    "builtins.str:'number_of_overlap_lines_with_adjacent_bursts': builtins.int:0} "
                    '|| input unchanged',
 'parsed-minus-one': "ok dict{builtins.str:'interleaving_id': builtins.str:''} || input unchanged",
 'parsed-minus-one-kw': "ok dict{builtins.str:'interleaving_id': builtins.str:''} || input "
                        'unchanged',
 'parsed-negative': "ok dict{builtins.str:'interleaving_id': builtins.str:'', "
                    "builtins.str:'valid_range': list[builtins.int:0, builtins.int:-5], "
                    "builtins.str:'number_of_burst_data': builtins.int:-2, "
                    "builtins.str:'number_of_lines_per_burst': builtins.int:-3, "
                    "builtins.str:'number_of_overlap_lines_with_adjacent_bursts': builtins.int:-4} "
                    '|| input unchanged',
 'parsed-negative-kw': "ok dict{builtins.str:'interleaving_id': builtins.str:'', "
                       "builtins.str:'valid_range': list[builtins.int:0, builtins.int:-5], "
                       "builtins.str:'number_of_burst_data': builtins.int:-2, "
                       "builtins.str:'number_of_lines_per_burst': builtins.int:-3, "
                       "builtins.str:'number_of_overlap_lines_with_adjacent_bursts': "
                       'builtins.int:-4} || input unchanged',
 'parsed-all': "ok dict{builtins.str:'interleaving_id': builtins.str:'BIL', "
               "builtins.str:'valid_range': list[builtins.int:0, builtins.int:255], "
               "builtins.str:'number_of_burst_data': builtins.int:1, "
               "builtins.str:'number_of_lines_per_burst': builtins.int:2, "
               "builtins.str:'number_of_overlap_lines_with_adjacent_bursts': builtins.int:3} || "
               'input unchanged',
 'parsed-all-kw': "ok dict{builtins.str:'interleaving_id': builtins.str:'BIL', "
                  "builtins.str:'valid_range': list[builtins.int:0, builtins.int:255], "
                  "builtins.str:'number_of_burst_data': builtins.int:1, "
                  "builtins.str:'number_of_lines_per_burst': builtins.int:2, "
                  "builtins.str:'number_of_overlap_lines_with_adjacent_bursts': builtins.int:3} || "
                  'input unchanged',
 'parsed-no-interleaving': "ok dict{builtins.str:'interleaving_id': builtins.str:'', "
                           "builtins.str:'valid_range': list[builtins.int:0, builtins.int:7]} || "
                           'input unchanged',
 'parsed-no-interleaving-kw': "ok dict{builtins.str:'interleaving_id': builtins.str:'', "
                              "builtins.str:'valid_range': list[builtins.int:0, builtins.int:7]} "
                              '|| input unchanged',
 'top-interleaving_id-0': "ok dict{builtins.str:'interleaving_id': builtins.int:27} || input "
                          'unchanged',
 'nested-interleaving_id-0': "ok dict{builtins.str:'interleaving_id': builtins.int:27} || input "
                             'unchanged',
 'top-interleaving_id-1': "ok dict{builtins.str:'interleaving_id': builtins.int:0} || input "
                          'unchanged',
 'nested-interleaving_id-1': "ok dict{builtins.str:'interleaving_id': builtins.int:0} || input "
                             'unchanged',
 'top-interleaving_id-2': "ok dict{builtins.str:'interleaving_id': builtins.int:-1} || input "
                          'unchanged',
 'nested-interleaving_id-2': "ok dict{builtins.str:'interleaving_id': builtins.int:-1} || input "
                             'unchanged',
 'top-interleaving_id-3': "ok dict{builtins.str:'interleaving_id': builtins.int:-2} || input "
                          'unchanged',
 'nested-interleaving_id-3': "ok dict{builtins.str:'interleaving_id': builtins.int:-2} || input "
                             'unchanged',
 'top-interleaving_id-4': "ok dict{builtins.str:'interleaving_id': builtins.int:1} || input "
                          'unchanged',
 'nested-interleaving_id-4': "ok dict{builtins.str:'interleaving_id': builtins.int:1} || input "
                             'unchanged',
 'top-interleaving_id-5': "ok dict{builtins.str:'interleaving_id': builtins.float:-1.0} || input "
                          'unchanged',
 'nested-interleaving_id-5': "ok dict{builtins.str:'interleaving_id': builtins.float:-1.0} || "
                             'input unchanged',
 'top-interleaving_id-6': "ok dict{builtins.str:'interleaving_id': builtins.float:1.5} || input "
                          'unchanged',
 'nested-interleaving_id-6': "ok dict{builtins.str:'interleaving_id': builtins.float:1.5} || input "
                             'unchanged',
 'top-interleaving_id-7': "ok dict{builtins.str:'interleaving_id': builtins.float:nan} || input "
                          'unchanged',
 'nested-interleaving_id-7': "ok dict{builtins.str:'interleaving_id': builtins.float:nan} || input "
                             'unchanged',
 'top-interleaving_id-8': "ok dict{builtins.str:'interleaving_id': builtins.float:nan} || input "
                          'unchanged',
 'nested-interleaving_id-8': "ok dict{builtins.str:'interleaving_id': builtins.float:nan} || input "
                             'unchanged',
 'top-interleaving_id-9': "ok dict{builtins.str:'interleaving_id': builtins.float:inf} || input "
                          'unchanged',
 'nested-interleaving_id-9': "ok dict{builtins.str:'interleaving_id': builtins.float:inf} || input "
                             'unchanged',
 'top-interleaving_id-10': "ok dict{builtins.str:'interleaving_id': builtins.float:-inf} || input "
                           'unchanged',
 'nested-interleaving_id-10': "ok dict{builtins.str:'interleaving_id': builtins.float:-inf} || "
                              'input unchanged',
 'top-interleaving_id-11': "ok dict{builtins.str:'interleaving_id': builtins.bool:True} || input "
                           'unchanged',
 'nested-interleaving_id-11': "ok dict{builtins.str:'interleaving_id': builtins.bool:True} || "
                              'input unchanged',
 'top-interleaving_id-12': "ok dict{builtins.str:'interleaving_id': builtins.bool:False} || input "
                           'unchanged',
 'nested-interleaving_id-12': "ok dict{builtins.str:'interleaving_id': builtins.bool:False} || "
                              'input unchanged',
 'top-interleaving_id-13': "ok dict{builtins.str:'interleaving_id': builtins.NoneType:None} || "
                           'input unchanged',
 'nested-interleaving_id-13': "ok dict{builtins.str:'interleaving_id': builtins.NoneType:None} || "
                              'input unchanged',
 'top-interleaving_id-14': "ok dict{builtins.str:'interleaving_id': builtins.str:''} || input "
                           'unchanged',
 'nested-interleaving_id-14': "ok dict{builtins.str:'interleaving_id': builtins.str:''} || input "
                              'unchanged',
 'top-interleaving_id-15': "ok dict{builtins.str:'interleaving_id': builtins.str:'abc'} || input "
                           'unchanged',
 'nested-interleaving_id-15': "ok dict{builtins.str:'interleaving_id': builtins.str:'abc'} || "
                              'input unchanged',
 'top-interleaving_id-16': "ok dict{builtins.str:'interleaving_id': builtins.str:'-1'} || input "
                           'unchanged',
 'nested-interleaving_id-16': "ok dict{builtins.str:'interleaving_id': builtins.str:'-1'} || input "
                              'unchanged',
 'top-interleaving_id-17': "ok dict{builtins.str:'interleaving_id': builtins.bytes:b'x'} || input "
                           'unchanged',
 'nested-interleaving_id-17': "ok dict{builtins.str:'interleaving_id': builtins.bytes:b'x'} || "
                              'input unchanged',
 'top-interleaving_id-18': 'ok dict{} || input unchanged',
 'nested-interleaving_id-18': 'ok dict{} || input unchanged',
 'top-interleaving_id-19': "ok dict{builtins.str:'interleaving_id': list[builtins.int:0]} || input "
                           'unchanged',
 'nested-interleaving_id-19': "ok dict{builtins.str:'interleaving_id': list[builtins.int:0]} || "
                              'input unchanged',
 'top-interleaving_id-20': "ok dict{builtins.str:'interleaving_id': list[builtins.int:-1]} || "
                           'input unchanged',
 'nested-interleaving_id-20': "ok dict{builtins.str:'interleaving_id': list[builtins.int:-1]} || "
                              'input unchanged',
 'top-interleaving_id-21': "ok dict{builtins.str:'interleaving_id': list[list[]]} || input "
                           'unchanged',
 'nested-interleaving_id-21': "ok dict{builtins.str:'interleaving_id': list[list[]]} || input "
                              'unchanged',
 'top-interleaving_id-22': "ok dict{builtins.str:'interleaving_id': tuple[]} || input unchanged",
 'nested-interleaving_id-22': "ok dict{builtins.str:'interleaving_id': tuple[]} || input unchanged",
 'top-interleaving_id-23': "ok dict{builtins.str:'interleaving_id': tuple[builtins.int:1, "
                           'builtins.int:2]} || input unchanged',
 'nested-interleaving_id-23': "ok dict{builtins.str:'interleaving_id': tuple[builtins.int:1, "
                              'builtins.int:2]} || input unchanged',
 'top-interleaving_id-24': 'ok dict{} || input unchanged',
 'nested-interleaving_id-24': "ok dict{builtins.str:'interleaving_id': dict{}} || input unchanged",
 'top-interleaving_id-25': 'ok dict{} || input unchanged',
 'nested-interleaving_id-25': "ok dict{builtins.str:'interleaving_id': dict{builtins.str:'a': "
                              'builtins.int:1}} || input unchanged',
 'top-interleaving_id-26': "ok dict{builtins.str:'number_of_burst_data': builtins.int:3} || input "
                           'unchanged',
 'nested-interleaving_id-26': "ok dict{builtins.str:'interleaving_id': "
                              "dict{builtins.str:'number_of_burst_data': builtins.int:3}} || input "
                              'unchanged',
 'top-interleaving_id-27': "ok dict{builtins.str:'interleaving_id': builtins.set:set()} || input "
                           'unchanged',
 'nested-interleaving_id-27': "ok dict{builtins.str:'interleaving_id': builtins.set:set()} || "
                              'input unchanged',
 'top-interleaving_id-28': "ok dict{builtins.str:'interleaving_id': numpy.int64:np.int64(-1)} || "
                           'input unchanged',
 'nested-interleaving_id-28': "ok dict{builtins.str:'interleaving_id': numpy.int64:np.int64(-1)} "
                              '|| input unchanged',
 'top-interleaving_id-29': "ok dict{builtins.str:'interleaving_id': numpy.int64:np.int64(5)} || "
                           'input unchanged',
 'nested-interleaving_id-29': "ok dict{builtins.str:'interleaving_id': numpy.int64:np.int64(5)} || "
                              'input unchanged',
 'top-interleaving_id-30': "ok dict{builtins.str:'interleaving_id': numpy.float64:np.float64(nan)} "
                           '|| input unchanged',
 'nested-interleaving_id-30': "ok dict{builtins.str:'interleaving_id': "
                              'numpy.float64:np.float64(nan)} || input unchanged',
 'top-interleaving_id-31': "ok dict{builtins.str:'interleaving_id': "
                           'numpy.float32:np.float32(-1.0)} || input unchanged',
 'nested-interleaving_id-31': "ok dict{builtins.str:'interleaving_id': "
                              'numpy.float32:np.float32(-1.0)} || input unchanged',
 'top-interleaving_id-32': "ok dict{builtins.str:'interleaving_id': numpy.float64:np.float64(2.5)} "
                           '|| input unchanged',
 'nested-interleaving_id-32': "ok dict{builtins.str:'interleaving_id': "
                              'numpy.float64:np.float64(2.5)} || input unchanged',
 'top-interleaving_id-33': "ok dict{builtins.str:'interleaving_id': ndarray[int64]-1} || input "
                           'unchanged',
 'nested-interleaving_id-33': "ok dict{builtins.str:'interleaving_id': ndarray[int64]-1} || input "
                              'unchanged',
 'top-interleaving_id-34': "ok dict{builtins.str:'interleaving_id': ndarray[int64]7} || input "
                           'unchanged',
 'nested-interleaving_id-34': "ok dict{builtins.str:'interleaving_id': ndarray[int64]7} || input "
                              'unchanged',
 'top-interleaving_id-35': "ok dict{builtins.str:'interleaving_id': ndarray[int64][1, 2]} || input "
                           'unchanged',
 'nested-interleaving_id-35': "ok dict{builtins.str:'interleaving_id': ndarray[int64][1, 2]} || "
                              'input unchanged',
 'top-interleaving_id-36': "ok dict{builtins.str:'interleaving_id': ndarray[float64][]} || input "
                           'unchanged',
 'nested-interleaving_id-36': "ok dict{builtins.str:'interleaving_id': ndarray[float64][]} || "
                              'input unchanged',
 'top-interleaving_id-37': "ok dict{builtins.str:'interleaving_id': ndarray[int64][-1]} || input "
                           'unchanged',
 'nested-interleaving_id-37': "ok dict{builtins.str:'interleaving_id': ndarray[int64][-1]} || "
                              'input unchanged',
 'top-interleaving_id-38': "ok dict{builtins.str:'interleaving_id': "
                           "numpy.datetime64:np.datetime64('NaT','ns')} || input unchanged",
 'nested-interleaving_id-38': "ok dict{builtins.str:'interleaving_id': "
                              "numpy.datetime64:np.datetime64('NaT','ns')} || input unchanged",
 'top-interleaving_id-39': "ok dict{builtins.str:'interleaving_id': decimal.Decimal:Decimal('-1')} "
                           '|| input unchanged',
 'nested-interleaving_id-39': "ok dict{builtins.str:'interleaving_id': "
                              "decimal.Decimal:Decimal('-1')} || input unchanged",
 'top-interleaving_id-40': "ok dict{builtins.str:'interleaving_id': "
                           "decimal.Decimal:Decimal('NaN')} || input unchanged",
 'nested-interleaving_id-40': "ok dict{builtins.str:'interleaving_id': "
                              "decimal.Decimal:Decimal('NaN')} || input unchanged",
 'top-interleaving_id-41': "ok dict{builtins.str:'interleaving_id': decimal.Decimal:Decimal('12')} "
                           '|| input unchanged',
 'nested-interleaving_id-41': "ok dict{builtins.str:'interleaving_id': "
                              "decimal.Decimal:Decimal('12')} || input unchanged",
 'top-interleaving_id-42': "ok dict{builtins.str:'interleaving_id': "
                           'fractions.Fraction:Fraction(-1, 1)} || input unchanged',
 'nested-interleaving_id-42': "ok dict{builtins.str:'interleaving_id': "
                              'fractions.Fraction:Fraction(-1, 1)} || input unchanged',
 'top-interleaving_id-43': "ok dict{builtins.str:'interleaving_id': fractions.Fraction:Fraction(1, "
                           '3)} || input unchanged',
 'nested-interleaving_id-43': "ok dict{builtins.str:'interleaving_id': "
                              'fractions.Fraction:Fraction(1, 3)} || input unchanged',
 'top-interleaving_id-44': "ok dict{builtins.str:'interleaving_id': builtins.complex:(1+0j)} || "
                           'input unchanged',
 'nested-interleaving_id-44': "ok dict{builtins.str:'interleaving_id': builtins.complex:(1+0j)} || "
                              'input unchanged',
 'top-interleaving_id-45': "ok dict{builtins.str:'interleaving_id': builtins.complex:(-1+0j)} || "
                           'input unchanged',
 'nested-interleaving_id-45': "ok dict{builtins.str:'interleaving_id': builtins.complex:(-1+0j)} "
                              '|| input unchanged',
 'top-interleaving_id-46': 'sha256:a4ddc6a2bf431af13e3cc00b7dafead678a532c467103c97b4fdcbcb2b217442 '
                           'len=474',
 'nested-interleaving_id-46': 'sha256:a4ddc6a2bf431af13e3cc00b7dafead678a532c467103c97b4fdcbcb2b217442 '
                              'len=474',
 'top-interleaving_id-47': "ok dict{builtins.str:'interleaving_id': "
                           'datetime.datetime:datetime.datetime(2020, 1, 1, 0, 0)} || input '
                           'unchanged',
 'nested-interleaving_id-47': "ok dict{builtins.str:'interleaving_id': "
                              'datetime.datetime:datetime.datetime(2020, 1, 1, 0, 0)} || input '
                              'unchanged',
 'top-interleaving_id-48': "ok dict{builtins.str:'interleaving_id': equiv.Weird:Weird()} || input "
                           'unchanged',
 'nested-interleaving_id-48': "ok dict{builtins.str:'interleaving_id': equiv.Weird:Weird()} || "
                              'input unchanged',
 'top-interleaving_id-49': "ok dict{builtins.str:'interleaving_id': "
                           'equiv.NeverDifferent:NeverDifferent()} || input unchanged',
 'nested-interleaving_id-49': "ok dict{builtins.str:'interleaving_id': "
                              'equiv.NeverDifferent:NeverDifferent()} || input unchanged',
 'top-interleaving_id-50': "ok dict{builtins.str:'interleaving_id': "
                           'equiv.Floatable:Floatable(nan)} || input unchanged',
 'nested-interleaving_id-50': "ok dict{builtins.str:'interleaving_id': "
                              'equiv.Floatable:Floatable(nan)} || input unchanged',
 'top-interleaving_id-51': "ok dict{builtins.str:'interleaving_id': "
                           'equiv.Floatable:Floatable(4.0)} || input unchanged',
 'nested-interleaving_id-51': "ok dict{builtins.str:'interleaving_id': "
                              'equiv.Floatable:Floatable(4.0)} || input unchanged',
 'top-maximum_data_range_of_pixel-0': "ok dict{builtins.str:'valid_range': list[builtins.int:0, "
                                      'builtins.int:27]} || input unchanged',
 'nested-maximum_data_range_of_pixel-0': "ok dict{builtins.str:'valid_range': list[builtins.int:0, "
                                         'builtins.int:27]} || input unchanged',
 'top-maximum_data_range_of_pixel-1': "ok dict{builtins.str:'valid_range': list[builtins.int:0, "
                                      'builtins.int:0]} || input unchanged',
 'nested-maximum_data_range_of_pixel-1': "ok dict{builtins.str:'valid_range': list[builtins.int:0, "
                                         'builtins.int:0]} || input unchanged',
 'top-maximum_data_range_of_pixel-2': 'ok dict{} || input unchanged',
 'nested-maximum_data_range_of_pixel-2': 'ok dict{} || input unchanged',
 'top-maximum_data_range_of_pixel-3': "ok dict{builtins.str:'valid_range': list[builtins.int:0, "
                                      'builtins.int:-2]} || input unchanged',
 'nested-maximum_data_range_of_pixel-3': "ok dict{builtins.str:'valid_range': list[builtins.int:0, "
                                         'builtins.int:-2]} || input unchanged',
 'top-maximum_data_range_of_pixel-4': "ok dict{builtins.str:'valid_range': list[builtins.int:0, "
                                      'builtins.int:1]} || input unchanged',
 'nested-maximum_data_range_of_pixel-4': "ok dict{builtins.str:'valid_range': list[builtins.int:0, "
                                         'builtins.int:1]} || input unchanged',
 'top-maximum_data_range_of_pixel-5': 'ok dict{} || input unchanged',
 'nested-maximum_data_range_of_pixel-5': 'ok dict{} || input unchanged',
 'top-maximum_data_range_of_pixel-6': "ok dict{builtins.str:'valid_range': list[builtins.int:0, "
                                      'builtins.float:1.5]} || input unchanged',
 'nested-maximum_data_range_of_pixel-6': "ok dict{builtins.str:'valid_range': list[builtins.int:0, "
                                         'builtins.float:1.5]} || input unchanged',
 'top-maximum_data_range_of_pixel-7': 'ok dict{} || input unchanged',
 'nested-maximum_data_range_of_pixel-7': 'ok dict{} || input unchanged',
 'top-maximum_data_range_of_pixel-8': 'ok dict{} || input unchanged',
 'nested-maximum_data_range_of_pixel-8': 'ok dict{} || input unchanged',
 'top-maximum_data_range_of_pixel-9': "ok dict{builtins.str:'valid_range': list[builtins.int:0, "
                                      'builtins.float:inf]} || input unchanged',
 'nested-maximum_data_range_of_pixel-9': "ok dict{builtins.str:'valid_range': list[builtins.int:0, "
                                         'builtins.float:inf]} || input unchanged',
 'top-maximum_data_range_of_pixel-10': "ok dict{builtins.str:'valid_range': list[builtins.int:0, "
                                       'builtins.float:-inf]} || input unchanged',
 'nested-maximum_data_range_of_pixel-10': "ok dict{builtins.str:'valid_range': "
                                          'list[builtins.int:0, builtins.float:-inf]} || input '
                                          'unchanged',
 'top-maximum_data_range_of_pixel-11': "ok dict{builtins.str:'valid_range': list[builtins.int:0, "
                                       'builtins.bool:True]} || input unchanged',
 'nested-maximum_data_range_of_pixel-11': "ok dict{builtins.str:'valid_range': "
                                          'list[builtins.int:0, builtins.bool:True]} || input '
                                          'unchanged',
 'top-maximum_data_range_of_pixel-12': "ok dict{builtins.str:'valid_range': list[builtins.int:0, "
                                       'builtins.bool:False]} || input unchanged',
 'nested-maximum_data_range_of_pixel-12': "ok dict{builtins.str:'valid_range': "
                                          'list[builtins.int:0, builtins.bool:False]} || input '
                                          'unchanged',
 'top-maximum_data_range_of_pixel-13': 'raised builtins.TypeError: must be real number, not '
                                       'NoneType || input unchanged',
 'nested-maximum_data_range_of_pixel-13': 'raised builtins.TypeError: must be real number, not '
                                          'NoneType || input unchanged',
 'top-maximum_data_range_of_pixel-14': 'raised builtins.TypeError: must be real number, not str || '
                                       'input unchanged',
 'nested-maximum_data_range_of_pixel-14': 'raised builtins.TypeError: must be real number, not str '
                                          '|| input unchanged',
 'top-maximum_data_range_of_pixel-15': 'raised builtins.TypeError: must be real number, not str || '
                                       'input unchanged',
 'nested-maximum_data_range_of_pixel-15': 'raised builtins.TypeError: must be real number, not str '
                                          '|| input unchanged',
 'top-maximum_data_range_of_pixel-16': 'raised builtins.TypeError: must be real number, not str || '
                                       'input unchanged',
 'nested-maximum_data_range_of_pixel-16': 'raised builtins.TypeError: must be real number, not str '
                                          '|| input unchanged',
 'top-maximum_data_range_of_pixel-17': 'raised builtins.TypeError: must be real number, not bytes '
                                       '|| input unchanged',
 'nested-maximum_data_range_of_pixel-17': 'raised builtins.TypeError: must be real number, not '
                                          'bytes || input unchanged',
 'top-maximum_data_range_of_pixel-18': 'raised builtins.TypeError: must be real number, not list '
                                       '|| input unchanged',
 'nested-maximum_data_range_of_pixel-18': 'raised builtins.TypeError: must be real number, not '
                                          'list || input unchanged',
 'top-maximum_data_range_of_pixel-19': 'raised builtins.TypeError: must be real number, not list '
                                       '|| input unchanged',
 'nested-maximum_data_range_of_pixel-19': 'raised builtins.TypeError: must be real number, not '
                                          'list || input unchanged',
 'top-maximum_data_range_of_pixel-20': 'raised builtins.TypeError: must be real number, not list '
                                       '|| input unchanged',
 'nested-maximum_data_range_of_pixel-20': 'raised builtins.TypeError: must be real number, not '
                                          'list || input unchanged',
 'top-maximum_data_range_of_pixel-21': 'raised builtins.TypeError: must be real number, not list '
                                       '|| input unchanged',
 'nested-maximum_data_range_of_pixel-21': 'raised builtins.TypeError: must be real number, not '
                                          'list || input unchanged',
 'top-maximum_data_range_of_pixel-22': 'raised builtins.TypeError: must be real number, not tuple '
                                       '|| input unchanged',
 'nested-maximum_data_range_of_pixel-22': 'raised builtins.TypeError: must be real number, not '
                                          'tuple || input unchanged',
 'top-maximum_data_range_of_pixel-23': 'raised builtins.TypeError: must be real number, not tuple '
                                       '|| input unchanged',
 'nested-maximum_data_range_of_pixel-23': 'raised builtins.TypeError: must be real number, not '
                                          'tuple || input unchanged',
 'top-maximum_data_range_of_pixel-24': 'ok dict{} || input unchanged',
 'nested-maximum_data_range_of_pixel-24': 'raised builtins.TypeError: must be real number, not '
                                          'dict || input unchanged',
 'top-maximum_data_range_of_pixel-25': 'ok dict{} || input unchanged',
 'nested-maximum_data_range_of_pixel-25': 'raised builtins.TypeError: must be real number, not '
                                          'dict || input unchanged',
 'top-maximum_data_range_of_pixel-26': "ok dict{builtins.str:'number_of_burst_data': "
                                       'builtins.int:3} || input unchanged',
 'nested-maximum_data_range_of_pixel-26': 'raised builtins.TypeError: must be real number, not '
                                          'dict || input unchanged',
 'top-maximum_data_range_of_pixel-27': 'raised builtins.TypeError: must be real number, not set || '
                                       'input unchanged',
 'nested-maximum_data_range_of_pixel-27': 'raised builtins.TypeError: must be real number, not set '
                                          '|| input unchanged',
 'top-maximum_data_range_of_pixel-28': 'ok dict{} || input unchanged',
 'nested-maximum_data_range_of_pixel-28': 'ok dict{} || input unchanged',
 'top-maximum_data_range_of_pixel-29': "ok dict{builtins.str:'valid_range': list[builtins.int:0, "
                                       'numpy.int64:np.int64(5)]} || input unchanged',
 'nested-maximum_data_range_of_pixel-29': "ok dict{builtins.str:'valid_range': "
                                          'list[builtins.int:0, numpy.int64:np.int64(5)]} || input '
                                          'unchanged',
 'top-maximum_data_range_of_pixel-30': 'ok dict{} || input unchanged',
 'nested-maximum_data_range_of_pixel-30': 'ok dict{} || input unchanged',
 'top-maximum_data_range_of_pixel-31': 'ok dict{} || input unchanged',
 'nested-maximum_data_range_of_pixel-31': 'ok dict{} || input unchanged',
 'top-maximum_data_range_of_pixel-32': "ok dict{builtins.str:'valid_range': list[builtins.int:0, "
                                       'numpy.float64:np.float64(2.5)]} || input unchanged',
 'nested-maximum_data_range_of_pixel-32': "ok dict{builtins.str:'valid_range': "
                                          'list[builtins.int:0, numpy.float64:np.float64(2.5)]} || '
                                          'input unchanged',
 'top-maximum_data_range_of_pixel-33': 'ok dict{} || input unchanged',
 'nested-maximum_data_range_of_pixel-33': 'ok dict{} || input unchanged',
 'top-maximum_data_range_of_pixel-34': "ok dict{builtins.str:'valid_range': list[builtins.int:0, "
                                       'ndarray[int64]7]} || input unchanged',
 'nested-maximum_data_range_of_pixel-34': "ok dict{builtins.str:'valid_range': "
                                          'list[builtins.int:0, ndarray[int64]7]} || input '
                                          'unchanged',
 'top-maximum_data_range_of_pixel-35': 'raised builtins.ValueError: The truth value of an array '
                                       'with more than one element is ambiguous. Use a.any() or '
                                       'a.all() || input unchanged',
 'nested-maximum_data_range_of_pixel-35': 'raised builtins.ValueError: The truth value of an array '
                                          'with more than one element is ambiguous. Use a.any() or '
                                          'a.all() || input unchanged',
 'top-maximum_data_range_of_pixel-36': 'raised builtins.ValueError: The truth value of an empty '
                                       'array is ambiguous. Use `array.size > 0` to check that an '
                                       'array is not empty. || input unchanged',
 'nested-maximum_data_range_of_pixel-36': 'raised builtins.ValueError: The truth value of an empty '
                                          'array is ambiguous. Use `array.size > 0` to check that '
                                          'an array is not empty. || input unchanged',
 'top-maximum_data_range_of_pixel-37': 'ok dict{} || input unchanged',
 'nested-maximum_data_range_of_pixel-37': 'ok dict{} || input unchanged',
 'top-maximum_data_range_of_pixel-38': 'raised builtins.TypeError: float() argument must be a '
                                       "string or a real number, not 'NoneType' || input unchanged",
 'nested-maximum_data_range_of_pixel-38': 'raised builtins.TypeError: float() argument must be a '
                                          "string or a real number, not 'NoneType' || input "
                                          'unchanged',
 'top-maximum_data_range_of_pixel-39': 'ok dict{} || input unchanged',
 'nested-maximum_data_range_of_pixel-39': 'ok dict{} || input unchanged',
 'top-maximum_data_range_of_pixel-40': 'ok dict{} || input unchanged',
 'nested-maximum_data_range_of_pixel-40': 'ok dict{} || input unchanged',
 'top-maximum_data_range_of_pixel-41': "ok dict{builtins.str:'valid_range': list[builtins.int:0, "
                                       "decimal.Decimal:Decimal('12')]} || input unchanged",
 'nested-maximum_data_range_of_pixel-41': "ok dict{builtins.str:'valid_range': "
                                          "list[builtins.int:0, decimal.Decimal:Decimal('12')]} || "
                                          'input unchanged',
 'top-maximum_data_range_of_pixel-42': 'ok dict{} || input unchanged',
 'nested-maximum_data_range_of_pixel-42': 'ok dict{} || input unchanged',
 'top-maximum_data_range_of_pixel-43': "ok dict{builtins.str:'valid_range': list[builtins.int:0, "
                                       'fractions.Fraction:Fraction(1, 3)]} || input unchanged',
 'nested-maximum_data_range_of_pixel-43': "ok dict{builtins.str:'valid_range': "
                                          'list[builtins.int:0, fractions.Fraction:Fraction(1, '
                                          '3)]} || input unchanged',
 'top-maximum_data_range_of_pixel-44': 'raised builtins.TypeError: must be real number, not '
                                       'complex || input unchanged',
 'nested-maximum_data_range_of_pixel-44': 'raised builtins.TypeError: must be real number, not '
                                          'complex || input unchanged',
 'top-maximum_data_range_of_pixel-45': 'ok dict{} || input unchanged',
 'nested-maximum_data_range_of_pixel-45': 'ok dict{} || input unchanged',
 'top-maximum_data_range_of_pixel-46': 'raised builtins.OverflowError: int too large to convert to '
                                       'float || input unchanged',
 'nested-maximum_data_range_of_pixel-46': 'raised builtins.OverflowError: int too large to convert '
                                          'to float || input unchanged',
 'top-maximum_data_range_of_pixel-47': 'raised builtins.TypeError: must be real number, not '
                                       'datetime.datetime || input unchanged',
 'nested-maximum_data_range_of_pixel-47': 'raised builtins.TypeError: must be real number, not '
                                          'datetime.datetime || input unchanged',
 'top-maximum_data_range_of_pixel-48': 'raised builtins.TypeError: must be real number, not Weird '
                                       '|| input unchanged',
 'nested-maximum_data_range_of_pixel-48': 'raised builtins.TypeError: must be real number, not '
                                          'Weird || input unchanged',
 'top-maximum_data_range_of_pixel-49': 'ok dict{} || input unchanged',
 'nested-maximum_data_range_of_pixel-49': 'ok dict{} || input unchanged',
 'top-maximum_data_range_of_pixel-50': 'ok dict{} || input unchanged',
 'nested-maximum_data_range_of_pixel-50': 'ok dict{} || input unchanged',
 'top-maximum_data_range_of_pixel-51': "ok dict{builtins.str:'valid_range': list[builtins.int:0, "
                                       'equiv.Floatable:Floatable(4.0)]} || input unchanged',
 'nested-maximum_data_range_of_pixel-51': "ok dict{builtins.str:'valid_range': "
                                          'list[builtins.int:0, equiv.Floatable:Floatable(4.0)]} '
                                          '|| input unchanged',
 'top-number_of_burst_data-0': "ok dict{builtins.str:'number_of_burst_data': builtins.int:27} || "
                               'input unchanged',
 'nested-number_of_burst_data-0': "ok dict{builtins.str:'number_of_burst_data': builtins.int:27} "
                                  '|| input unchanged',
 'top-number_of_burst_data-1': "ok dict{builtins.str:'number_of_burst_data': builtins.int:0} || "
                               'input unchanged',
 'nested-number_of_burst_data-1': "ok dict{builtins.str:'number_of_burst_data': builtins.int:0} || "
                                  'input unchanged',
 'top-number_of_burst_data-2': 'ok dict{} || input unchanged',
 'nested-number_of_burst_data-2': 'ok dict{} || input unchanged',
 'top-number_of_burst_data-3': "ok dict{builtins.str:'number_of_burst_data': builtins.int:-2} || "
                               'input unchanged',
 'nested-number_of_burst_data-3': "ok dict{builtins.str:'number_of_burst_data': builtins.int:-2} "
                                  '|| input unchanged',
 'top-number_of_burst_data-4': "ok dict{builtins.str:'number_of_burst_data': builtins.int:1} || "
                               'input unchanged',
 'nested-number_of_burst_data-4': "ok dict{builtins.str:'number_of_burst_data': builtins.int:1} || "
                                  'input unchanged',
 'top-number_of_burst_data-5': 'ok dict{} || input unchanged',
 'nested-number_of_burst_data-5': 'ok dict{} || input unchanged',
 'top-number_of_burst_data-6': "ok dict{builtins.str:'number_of_burst_data': builtins.float:1.5} "
                               '|| input unchanged',
 'nested-number_of_burst_data-6': "ok dict{builtins.str:'number_of_burst_data': "
                                  'builtins.float:1.5} || input unchanged',
 'top-number_of_burst_data-7': "ok dict{builtins.str:'number_of_burst_data': builtins.float:nan} "
                               '|| input unchanged',
 'nested-number_of_burst_data-7': "ok dict{builtins.str:'number_of_burst_data': "
                                  'builtins.float:nan} || input unchanged',
 'top-number_of_burst_data-8': "ok dict{builtins.str:'number_of_burst_data': builtins.float:nan} "
                               '|| input unchanged',
 'nested-number_of_burst_data-8': "ok dict{builtins.str:'number_of_burst_data': "
                                  'builtins.float:nan} || input unchanged',
 'top-number_of_burst_data-9': "ok dict{builtins.str:'number_of_burst_data': builtins.float:inf} "
                               '|| input unchanged',
 'nested-number_of_burst_data-9': "ok dict{builtins.str:'number_of_burst_data': "
                                  'builtins.float:inf} || input unchanged',
 'top-number_of_burst_data-10': "ok dict{builtins.str:'number_of_burst_data': builtins.float:-inf} "
                                '|| input unchanged',
 'nested-number_of_burst_data-10': "ok dict{builtins.str:'number_of_burst_data': "
                                   'builtins.float:-inf} || input unchanged',
 'top-number_of_burst_data-11': "ok dict{builtins.str:'number_of_burst_data': builtins.bool:True} "
                                '|| input unchanged',
 'nested-number_of_burst_data-11': "ok dict{builtins.str:'number_of_burst_data': "
                                   'builtins.bool:True} || input unchanged',
 'top-number_of_burst_data-12': "ok dict{builtins.str:'number_of_burst_data': builtins.bool:False} "
                                '|| input unchanged',
 'nested-number_of_burst_data-12': "ok dict{builtins.str:'number_of_burst_data': "
                                   'builtins.bool:False} || input unchanged',
 'top-number_of_burst_data-13': "ok dict{builtins.str:'number_of_burst_data': "
                                'builtins.NoneType:None} || input unchanged',
 'nested-number_of_burst_data-13': "ok dict{builtins.str:'number_of_burst_data': "
                                   'builtins.NoneType:None} || input unchanged',
 'top-number_of_burst_data-14': "ok dict{builtins.str:'number_of_burst_data': builtins.str:''} || "
                                'input unchanged',
 'nested-number_of_burst_data-14': "ok dict{builtins.str:'number_of_burst_data': builtins.str:''} "
                                   '|| input unchanged',
 'top-number_of_burst_data-15': "ok dict{builtins.str:'number_of_burst_data': builtins.str:'abc'} "
                                '|| input unchanged',
 'nested-number_of_burst_data-15': "ok dict{builtins.str:'number_of_burst_data': "
                                   "builtins.str:'abc'} || input unchanged",
 'top-number_of_burst_data-16': "ok dict{builtins.str:'number_of_burst_data': builtins.str:'-1'} "
                                '|| input unchanged',
 'nested-number_of_burst_data-16': "ok dict{builtins.str:'number_of_burst_data': "
                                   "builtins.str:'-1'} || input unchanged",
 'top-number_of_burst_data-17': "ok dict{builtins.str:'number_of_burst_data': builtins.bytes:b'x'} "
                                '|| input unchanged',
 'nested-number_of_burst_data-17': "ok dict{builtins.str:'number_of_burst_data': "
                                   "builtins.bytes:b'x'} || input unchanged",
 'top-number_of_burst_data-18': 'ok dict{} || input unchanged',
 'nested-number_of_burst_data-18': 'ok dict{} || input unchanged',
 'top-number_of_burst_data-19': "ok dict{builtins.str:'number_of_burst_data': "
                                'list[builtins.int:0]} || input unchanged',
 'nested-number_of_burst_data-19': "ok dict{builtins.str:'number_of_burst_data': "
                                   'list[builtins.int:0]} || input unchanged',
 'top-number_of_burst_data-20': "ok dict{builtins.str:'number_of_burst_data': "
                                'list[builtins.int:-1]} || input unchanged',
 'nested-number_of_burst_data-20': "ok dict{builtins.str:'number_of_burst_data': "
                                   'list[builtins.int:-1]} || input unchanged',
 'top-number_of_burst_data-21': "ok dict{builtins.str:'number_of_burst_data': list[list[]]} || "
                                'input unchanged',
 'nested-number_of_burst_data-21': "ok dict{builtins.str:'number_of_burst_data': list[list[]]} || "
                                   'input unchanged',
 'top-number_of_burst_data-22': "ok dict{builtins.str:'number_of_burst_data': tuple[]} || input "
                                'unchanged',
 'nested-number_of_burst_data-22': "ok dict{builtins.str:'number_of_burst_data': tuple[]} || input "
                                   'unchanged',
 'top-number_of_burst_data-23': "ok dict{builtins.str:'number_of_burst_data': "
                                'tuple[builtins.int:1, builtins.int:2]} || input unchanged',
 'nested-number_of_burst_data-23': "ok dict{builtins.str:'number_of_burst_data': "
                                   'tuple[builtins.int:1, builtins.int:2]} || input unchanged',
 'top-number_of_burst_data-24': 'ok dict{} || input unchanged',
 'nested-number_of_burst_data-24': "ok dict{builtins.str:'number_of_burst_data': dict{}} || input "
                                   'unchanged',
 'top-number_of_burst_data-25': 'ok dict{} || input unchanged',
 'nested-number_of_burst_data-25': "ok dict{builtins.str:'number_of_burst_data': "
                                   "dict{builtins.str:'a': builtins.int:1}} || input unchanged",
 'top-number_of_burst_data-26': "ok dict{builtins.str:'number_of_burst_data': builtins.int:3} || "
                                'input unchanged',
 'nested-number_of_burst_data-26': "ok dict{builtins.str:'number_of_burst_data': "
                                   "dict{builtins.str:'number_of_burst_data': builtins.int:3}} || "
                                   'input unchanged',
 'top-number_of_burst_data-27': "ok dict{builtins.str:'number_of_burst_data': builtins.set:set()} "
                                '|| input unchanged',
 'nested-number_of_burst_data-27': "ok dict{builtins.str:'number_of_burst_data': "
                                   'builtins.set:set()} || input unchanged',
 'top-number_of_burst_data-28': 'ok dict{} || input unchanged',
 'nested-number_of_burst_data-28': 'ok dict{} || input unchanged',
 'top-number_of_burst_data-29': "ok dict{builtins.str:'number_of_burst_data': "
                                'numpy.int64:np.int64(5)} || input unchanged',
 'nested-number_of_burst_data-29': "ok dict{builtins.str:'number_of_burst_data': "
                                   'numpy.int64:np.int64(5)} || input unchanged',
 'top-number_of_burst_data-30': "ok dict{builtins.str:'number_of_burst_data': "
                                'numpy.float64:np.float64(nan)} || input unchanged',
 'nested-number_of_burst_data-30': "ok dict{builtins.str:'number_of_burst_data': "
                                   'numpy.float64:np.float64(nan)} || input unchanged',
 'top-number_of_burst_data-31': 'ok dict{} || input unchanged',
 'nested-number_of_burst_data-31': 'ok dict{} || input unchanged',
 'top-number_of_burst_data-32': "ok dict{builtins.str:'number_of_burst_data': "
                                'numpy.float64:np.float64(2.5)} || input unchanged',
 'nested-number_of_burst_data-32': "ok dict{builtins.str:'number_of_burst_data': "
                                   'numpy.float64:np.float64(2.5)} || input unchanged',
 'top-number_of_burst_data-33': 'ok dict{} || input unchanged',
 'nested-number_of_burst_data-33': 'ok dict{} || input unchanged',
 'top-number_of_burst_data-34': "ok dict{builtins.str:'number_of_burst_data': ndarray[int64]7} || "
                                'input unchanged',
 'nested-number_of_burst_data-34': "ok dict{builtins.str:'number_of_burst_data': ndarray[int64]7} "
                                   '|| input unchanged',
 'top-number_of_burst_data-35': 'raised builtins.ValueError: The truth value of an array with more '
                                'than one element is ambiguous. Use a.any() or a.all() || input '
                                'unchanged',
 'nested-number_of_burst_data-35': 'raised builtins.ValueError: The truth value of an array with '
                                   'more than one element is ambiguous. Use a.any() or a.all() || '
                                   'input unchanged',
 'top-number_of_burst_data-36': 'raised builtins.ValueError: The truth value of an empty array is '
                                'ambiguous. Use `array.size > 0` to check that an array is not '
                                'empty. || input unchanged',
 'nested-number_of_burst_data-36': 'raised builtins.ValueError: The truth value of an empty array '
                                   'is ambiguous. Use `array.size > 0` to check that an array is '
                                   'not empty. || input unchanged',
 'top-number_of_burst_data-37': 'ok dict{} || input unchanged',
 'nested-number_of_burst_data-37': 'ok dict{} || input unchanged',
 'top-number_of_burst_data-38': "ok dict{builtins.str:'number_of_burst_data': "
                                "numpy.datetime64:np.datetime64('NaT','ns')} || input unchanged",
 'nested-number_of_burst_data-38': "ok dict{builtins.str:'number_of_burst_data': "
                                   "numpy.datetime64:np.datetime64('NaT','ns')} || input unchanged",
 'top-number_of_burst_data-39': 'ok dict{} || input unchanged',
 'nested-number_of_burst_data-39': 'ok dict{} || input unchanged',
 'top-number_of_burst_data-40': "ok dict{builtins.str:'number_of_burst_data': "
                                "decimal.Decimal:Decimal('NaN')} || input unchanged",
 'nested-number_of_burst_data-40': "ok dict{builtins.str:'number_of_burst_data': "
                                   "decimal.Decimal:Decimal('NaN')} || input unchanged",
 'top-number_of_burst_data-41': "ok dict{builtins.str:'number_of_burst_data': "
                                "decimal.Decimal:Decimal('12')} || input unchanged",
 'nested-number_of_burst_data-41': "ok dict{builtins.str:'number_of_burst_data': "
                                   "decimal.Decimal:Decimal('12')} || input unchanged",
 'top-number_of_burst_data-42': 'ok dict{} || input unchanged',
 'nested-number_of_burst_data-42': 'ok dict{} || input unchanged',
 'top-number_of_burst_data-43': "ok dict{builtins.str:'number_of_burst_data': "
                                'fractions.Fraction:Fraction(1, 3)} || input unchanged',
 'nested-number_of_burst_data-43': "ok dict{builtins.str:'number_of_burst_data': "
                                   'fractions.Fraction:Fraction(1, 3)} || input unchanged',
 'top-number_of_burst_data-44': "ok dict{builtins.str:'number_of_burst_data': "
                                'builtins.complex:(1+0j)} || input unchanged',
 'nested-number_of_burst_data-44': "ok dict{builtins.str:'number_of_burst_data': "
                                   'builtins.complex:(1+0j)} || input unchanged',
 'top-number_of_burst_data-45': 'ok dict{} || input unchanged',
 'nested-number_of_burst_data-45': 'ok dict{} || input unchanged',
 'top-number_of_burst_data-46': 'sha256:03c270d71b2a53bbc07dfea86dca78ba936765d8a1687cef2dc248a35156e976 '
                                'len=479',
 'nested-number_of_burst_data-46': 'sha256:03c270d71b2a53bbc07dfea86dca78ba936765d8a1687cef2dc248a35156e976 '
                                   'len=479',
 'top-number_of_burst_data-47': "ok dict{builtins.str:'number_of_burst_data': "
                                'datetime.datetime:datetime.datetime(2020, 1, 1, 0, 0)} || input '
                                'unchanged',
 'nested-number_of_burst_data-47': "ok dict{builtins.str:'number_of_burst_data': "
                                   'datetime.datetime:datetime.datetime(2020, 1, 1, 0, 0)} || '
                                   'input unchanged',
 'top-number_of_burst_data-48': "ok dict{builtins.str:'number_of_burst_data': equiv.Weird:Weird()} "
                                '|| input unchanged',
 'nested-number_of_burst_data-48': "ok dict{builtins.str:'number_of_burst_data': "
                                   'equiv.Weird:Weird()} || input unchanged',
 'top-number_of_burst_data-49': 'ok dict{} || input unchanged',
 'nested-number_of_burst_data-49': 'ok dict{} || input unchanged',
 'top-number_of_burst_data-50': "ok dict{builtins.str:'number_of_burst_data': "
                                'equiv.Floatable:Floatable(nan)} || input unchanged',
 'nested-number_of_burst_data-50': "ok dict{builtins.str:'number_of_burst_data': "
                                   'equiv.Floatable:Floatable(nan)} || input unchanged',
 'top-number_of_burst_data-51': "ok dict{builtins.str:'number_of_burst_data': "
                                'equiv.Floatable:Floatable(4.0)} || input unchanged',
 'nested-number_of_burst_data-51': "ok dict{builtins.str:'number_of_burst_data': "
                                   'equiv.Floatable:Floatable(4.0)} || input unchanged',
 'top-number_of_lines_per_burst-0': "ok dict{builtins.str:'number_of_lines_per_burst': "
                                    'builtins.int:27} || input unchanged',
 'nested-number_of_lines_per_burst-0': "ok dict{builtins.str:'number_of_lines_per_burst': "
                                       'builtins.int:27} || input unchanged',
 'top-number_of_lines_per_burst-1': "ok dict{builtins.str:'number_of_lines_per_burst': "
                                    'builtins.int:0} || input unchanged',
 'nested-number_of_lines_per_burst-1': "ok dict{builtins.str:'number_of_lines_per_burst': "
                                       'builtins.int:0} || input unchanged',
 'top-number_of_lines_per_burst-2': 'ok dict{} || input unchanged',
 'nested-number_of_lines_per_burst-2': 'ok dict{} || input unchanged',
 'top-number_of_lines_per_burst-3': "ok dict{builtins.str:'number_of_lines_per_burst': "
                                    'builtins.int:-2} || input unchanged',
 'nested-number_of_lines_per_burst-3': "ok dict{builtins.str:'number_of_lines_per_burst': "
                                       'builtins.int:-2} || input unchanged',
 'top-number_of_lines_per_burst-4': "ok dict{builtins.str:'number_of_lines_per_burst': "
                                    'builtins.int:1} || input unchanged',
 'nested-number_of_lines_per_burst-4': "ok dict{builtins.str:'number_of_lines_per_burst': "
                                       'builtins.int:1} || input unchanged',
 'top-number_of_lines_per_burst-5': 'ok dict{} || input unchanged',
 'nested-number_of_lines_per_burst-5': 'ok dict{} || input unchanged',
 'top-number_of_lines_per_burst-6': "ok dict{builtins.str:'number_of_lines_per_burst': "
                                    'builtins.float:1.5} || input unchanged',
 'nested-number_of_lines_per_burst-6': "ok dict{builtins.str:'number_of_lines_per_burst': "
                                       'builtins.float:1.5} || input unchanged',
 'top-number_of_lines_per_burst-7': "ok dict{builtins.str:'number_of_lines_per_burst': "
                                    'builtins.float:nan} || input unchanged',
 'nested-number_of_lines_per_burst-7': "ok dict{builtins.str:'number_of_lines_per_burst': "
                                       'builtins.float:nan} || input unchanged',
 'top-number_of_lines_per_burst-8': "ok dict{builtins.str:'number_of_lines_per_burst': "
                                    'builtins.float:nan} || input unchanged',
 'nested-number_of_lines_per_burst-8': "ok dict{builtins.str:'number_of_lines_per_burst': "
                                       'builtins.float:nan} || input unchanged',
 'top-number_of_lines_per_burst-9': "ok dict{builtins.str:'number_of_lines_per_burst': "
                                    'builtins.float:inf} || input unchanged',
 'nested-number_of_lines_per_burst-9': "ok dict{builtins.str:'number_of_lines_per_burst': "
                                       'builtins.float:inf} || input unchanged',
 'top-number_of_lines_per_burst-10': "ok dict{builtins.str:'number_of_lines_per_burst': "
                                     'builtins.float:-inf} || input unchanged',
 'nested-number_of_lines_per_burst-10': "ok dict{builtins.str:'number_of_lines_per_burst': "
                                        'builtins.float:-inf} || input unchanged',
 'top-number_of_lines_per_burst-11': "ok dict{builtins.str:'number_of_lines_per_burst': "
                                     'builtins.bool:True} || input unchanged',
 'nested-number_of_lines_per_burst-11': "ok dict{builtins.str:'number_of_lines_per_burst': "
                                        'builtins.bool:True} || input unchanged',
 'top-number_of_lines_per_burst-12': "ok dict{builtins.str:'number_of_lines_per_burst': "
                                     'builtins.bool:False} || input unchanged',
 'nested-number_of_lines_per_burst-12': "ok dict{builtins.str:'number_of_lines_per_burst': "
                                        'builtins.bool:False} || input unchanged',
 'top-number_of_lines_per_burst-13': "ok dict{builtins.str:'number_of_lines_per_burst': "
                                     'builtins.NoneType:None} || input unchanged',
 'nested-number_of_lines_per_burst-13': "ok dict{builtins.str:'number_of_lines_per_burst': "
                                        'builtins.NoneType:None} || input unchanged',
 'top-number_of_lines_per_burst-14': "ok dict{builtins.str:'number_of_lines_per_burst': "
                                     "builtins.str:''} || input unchanged",
 'nested-number_of_lines_per_burst-14': "ok dict{builtins.str:'number_of_lines_per_burst': "
                                        "builtins.str:''} || input unchanged",
 'top-number_of_lines_per_burst-15': "ok dict{builtins.str:'number_of_lines_per_burst': "
                                     "builtins.str:'abc'} || input unchanged",
 'nested-number_of_lines_per_burst-15': "ok dict{builtins.str:'number_of_lines_per_burst': "
                                        "builtins.str:'abc'} || input unchanged",
 'top-number_of_lines_per_burst-16': "ok dict{builtins.str:'number_of_lines_per_burst': "
                                     "builtins.str:'-1'} || input unchanged",
 'nested-number_of_lines_per_burst-16': "ok dict{builtins.str:'number_of_lines_per_burst': "
                                        "builtins.str:'-1'} || input unchanged",
 'top-number_of_lines_per_burst-17': "ok dict{builtins.str:'number_of_lines_per_burst': "
                                     "builtins.bytes:b'x'} || input unchanged",
 'nested-number_of_lines_per_burst-17': "ok dict{builtins.str:'number_of_lines_per_burst': "
                                        "builtins.bytes:b'x'} || input unchanged",
 'top-number_of_lines_per_burst-18': 'ok dict{} || input unchanged',
 'nested-number_of_lines_per_burst-18': 'ok dict{} || input unchanged',
 'top-number_of_lines_per_burst-19': "ok dict{builtins.str:'number_of_lines_per_burst': "
                                     'list[builtins.int:0]} || input unchanged',
 'nested-number_of_lines_per_burst-19': "ok dict{builtins.str:'number_of_lines_per_burst': "
                                        'list[builtins.int:0]} || input unchanged',
 'top-number_of_lines_per_burst-20': "ok dict{builtins.str:'number_of_lines_per_burst': "
                                     'list[builtins.int:-1]} || input unchanged',
 'nested-number_of_lines_per_burst-20': "ok dict{builtins.str:'number_of_lines_per_burst': "
                                        'list[builtins.int:-1]} || input unchanged',
 'top-number_of_lines_per_burst-21': "ok dict{builtins.str:'number_of_lines_per_burst': "
                                     'list[list[]]} || input unchanged',
 'nested-number_of_lines_per_burst-21': "ok dict{builtins.str:'number_of_lines_per_burst': "
                                        'list[list[]]} || input unchanged',
 'top-number_of_lines_per_burst-22': "ok dict{builtins.str:'number_of_lines_per_burst': tuple[]} "
                                     '|| input unchanged',
 'nested-number_of_lines_per_burst-22': "ok dict{builtins.str:'number_of_lines_per_burst': "
                                        'tuple[]} || input unchanged',
 'top-number_of_lines_per_burst-23': "ok dict{builtins.str:'number_of_lines_per_burst': "
                                     'tuple[builtins.int:1, builtins.int:2]} || input unchanged',
 'nested-number_of_lines_per_burst-23': "ok dict{builtins.str:'number_of_lines_per_burst': "
                                        'tuple[builtins.int:1, builtins.int:2]} || input unchanged',
 'top-number_of_lines_per_burst-24': 'ok dict{} || input unchanged',
 'nested-number_of_lines_per_burst-24': "ok dict{builtins.str:'number_of_lines_per_burst': dict{}} "
                                        '|| input unchanged',
 'top-number_of_lines_per_burst-25': 'ok dict{} || input unchanged',
 'nested-number_of_lines_per_burst-25': "ok dict{builtins.str:'number_of_lines_per_burst': "
                                        "dict{builtins.str:'a': builtins.int:1}} || input "
                                        'unchanged',
 'top-number_of_lines_per_burst-26': "ok dict{builtins.str:'number_of_burst_data': builtins.int:3} "
                                     '|| input unchanged',
 'nested-number_of_lines_per_burst-26': "ok dict{builtins.str:'number_of_lines_per_burst': "
                                        "dict{builtins.str:'number_of_burst_data': "
                                        'builtins.int:3}} || input unchanged',
 'top-number_of_lines_per_burst-27': "ok dict{builtins.str:'number_of_lines_per_burst': "
                                     'builtins.set:set()} || input unchanged',
 'nested-number_of_lines_per_burst-27': "ok dict{builtins.str:'number_of_lines_per_burst': "
                                        'builtins.set:set()} || input unchanged',
 'top-number_of_lines_per_burst-28': 'ok dict{} || input unchanged',
 'nested-number_of_lines_per_burst-28': 'ok dict{} || input unchanged',
 'top-number_of_lines_per_burst-29': "ok dict{builtins.str:'number_of_lines_per_burst': "
                                     'numpy.int64:np.int64(5)} || input unchanged',
 'nested-number_of_lines_per_burst-29': "ok dict{builtins.str:'number_of_lines_per_burst': "
                                        'numpy.int64:np.int64(5)} || input unchanged',
 'top-number_of_lines_per_burst-30': "ok dict{builtins.str:'number_of_lines_per_burst': "
                                     'numpy.float64:np.float64(nan)} || input unchanged',
 'nested-number_of_lines_per_burst-30': "ok dict{builtins.str:'number_of_lines_per_burst': "
                                        'numpy.float64:np.float64(nan)} || input unchanged',
 'top-number_of_lines_per_burst-31': 'ok dict{} || input unchanged',
 'nested-number_of_lines_per_burst-31': 'ok dict{} || input unchanged',
 'top-number_of_lines_per_burst-32': "ok dict{builtins.str:'number_of_lines_per_burst': "
                                     'numpy.float64:np.float64(2.5)} || input unchanged',
 'nested-number_of_lines_per_burst-32': "ok dict{builtins.str:'number_of_lines_per_burst': "
                                        'numpy.float64:np.float64(2.5)} || input unchanged',
 'top-number_of_lines_per_burst-33': 'ok dict{} || input unchanged',
 'nested-number_of_lines_per_burst-33': 'ok dict{} || input unchanged',
 'top-number_of_lines_per_burst-34': "ok dict{builtins.str:'number_of_lines_per_burst': "
                                     'ndarray[int64]7} || input unchanged',
 'nested-number_of_lines_per_burst-34': "ok dict{builtins.str:'number_of_lines_per_burst': "
                                        'ndarray[int64]7} || input unchanged',
 'top-number_of_lines_per_burst-35': 'raised builtins.ValueError: The truth value of an array with '
                                     'more than one element is ambiguous. Use a.any() or a.all() '
                                     '|| input unchanged',
 'nested-number_of_lines_per_burst-35': 'raised builtins.ValueError: The truth value of an array '
                                        'with more than one element is ambiguous. Use a.any() or '
                                        'a.all() || input unchanged',
 'top-number_of_lines_per_burst-36': 'raised builtins.ValueError: The truth value of an empty '
                                     'array is ambiguous. Use `array.size > 0` to check that an '
                                     'array is not empty. || input unchanged',
 'nested-number_of_lines_per_burst-36': 'raised builtins.ValueError: The truth value of an empty '
                                        'array is ambiguous. Use `array.size > 0` to check that an '
                                        'array is not empty. || input unchanged',
 'top-number_of_lines_per_burst-37': 'ok dict{} || input unchanged',
 'nested-number_of_lines_per_burst-37': 'ok dict{} || input unchanged',
 'top-number_of_lines_per_burst-38': "ok dict{builtins.str:'number_of_lines_per_burst': "
                                     "numpy.datetime64:np.datetime64('NaT','ns')} || input "
                                     'unchanged',
 'nested-number_of_lines_per_burst-38': "ok dict{builtins.str:'number_of_lines_per_burst': "
                                        "numpy.datetime64:np.datetime64('NaT','ns')} || input "
                                        'unchanged',
 'top-number_of_lines_per_burst-39': 'ok dict{} || input unchanged',
 'nested-number_of_lines_per_burst-39': 'ok dict{} || input unchanged',
 'top-number_of_lines_per_burst-40': "ok dict{builtins.str:'number_of_lines_per_burst': "
                                     "decimal.Decimal:Decimal('NaN')} || input unchanged",
 'nested-number_of_lines_per_burst-40': "ok dict{builtins.str:'number_of_lines_per_burst': "
                                        "decimal.Decimal:Decimal('NaN')} || input unchanged",
 'top-number_of_lines_per_burst-41': "ok dict{builtins.str:'number_of_lines_per_burst': "
                                     "decimal.Decimal:Decimal('12')} || input unchanged",
 'nested-number_of_lines_per_burst-41': "ok dict{builtins.str:'number_of_lines_per_burst': "
                                        "decimal.Decimal:Decimal('12')} || input unchanged",
 'top-number_of_lines_per_burst-42': 'ok dict{} || input unchanged',
 'nested-number_of_lines_per_burst-42': 'ok dict{} || input unchanged',
 'top-number_of_lines_per_burst-43': "ok dict{builtins.str:'number_of_lines_per_burst': "
                                     'fractions.Fraction:Fraction(1, 3)} || input unchanged',
 'nested-number_of_lines_per_burst-43': "ok dict{builtins.str:'number_of_lines_per_burst': "
                                        'fractions.Fraction:Fraction(1, 3)} || input unchanged',
 'top-number_of_lines_per_burst-44': "ok dict{builtins.str:'number_of_lines_per_burst': "
                                     'builtins.complex:(1+0j)} || input unchanged',
 'nested-number_of_lines_per_burst-44': "ok dict{builtins.str:'number_of_lines_per_burst': "
                                        'builtins.complex:(1+0j)} || input unchanged',
 'top-number_of_lines_per_burst-45': 'ok dict{} || input unchanged',
 'nested-number_of_lines_per_burst-45': 'ok dict{} || input unchanged',
 'top-number_of_lines_per_burst-46': 'sha256:13a89d78ad1fa6212b9df65031f8207d5183b9c255be563ebce138eba6fc1b3c '
                                     'len=484',
 'nested-number_of_lines_per_burst-46': 'sha256:13a89d78ad1fa6212b9df65031f8207d5183b9c255be563ebce138eba6fc1b3c '
                                        'len=484',
 'top-number_of_lines_per_burst-47': "ok dict{builtins.str:'number_of_lines_per_burst': "
                                     'datetime.datetime:datetime.datetime(2020, 1, 1, 0, 0)} || '
                                     'input unchanged',
 'nested-number_of_lines_per_burst-47': "ok dict{builtins.str:'number_of_lines_per_burst': "
                                        'datetime.datetime:datetime.datetime(2020, 1, 1, 0, 0)} || '
                                        'input unchanged',
 'top-number_of_lines_per_burst-48': "ok dict{builtins.str:'number_of_lines_per_burst': "
                                     'equiv.Weird:Weird()} || input unchanged',
 'nested-number_of_lines_per_burst-48': "ok dict{builtins.str:'number_of_lines_per_burst': "
                                        'equiv.Weird:Weird()} || input unchanged',
 'top-number_of_lines_per_burst-49': 'ok dict{} || input unchanged',
 'nested-number_of_lines_per_burst-49': 'ok dict{} || input unchanged',
 'top-number_of_lines_per_burst-50': "ok dict{builtins.str:'number_of_lines_per_burst': "
                                     'equiv.Floatable:Floatable(nan)} || input unchanged',
 'nested-number_of_lines_per_burst-50': "ok dict{builtins.str:'number_of_lines_per_burst': "
                                        'equiv.Floatable:Floatable(nan)} || input unchanged',
 'top-number_of_lines_per_burst-51': "ok dict{builtins.str:'number_of_lines_per_burst': "
                                     'equiv.Floatable:Floatable(4.0)} || input unchanged',
 'nested-number_of_lines_per_burst-51': "ok dict{builtins.str:'number_of_lines_per_burst': "
                                        'equiv.Floatable:Floatable(4.0)} || input unchanged',
 'top-number_of_overlap_lines_with_adjacent_bursts-0': 'ok '
                                                       "dict{builtins.str:'number_of_overlap_lines_with_adjacent_bursts': "
                                                       'builtins.int:27} || input unchanged',
 'nested-number_of_overlap_lines_with_adjacent_bursts-0': 'ok '
                                                          "dict{builtins.str:'number_of_overlap_lines_with_adjacent_bursts': "
                                                          'builtins.int:27} || input unchanged',
 'top-number_of_overlap_lines_with_adjacent_bursts-1': 'ok '
                                                       "dict{builtins.str:'number_of_overlap_lines_with_adjacent_bursts': "
                                                       'builtins.int:0} || input unchanged',
 'nested-number_of_overlap_lines_with_adjacent_bursts-1': 'ok '
                                                          "dict{builtins.str:'number_of_overlap_lines_with_adjacent_bursts': "
                                                          'builtins.int:0} || input unchanged',
 'top-number_of_overlap_lines_with_adjacent_bursts-2': 'ok dict{} || input unchanged',
 'nested-number_of_overlap_lines_with_adjacent_bursts-2': 'ok dict{} || input unchanged',
 'top-number_of_overlap_lines_with_adjacent_bursts-3': 'ok '
                                                       "dict{builtins.str:'number_of_overlap_lines_with_adjacent_bursts': "
                                                       'builtins.int:-2} || input unchanged',
 'nested-number_of_overlap_lines_with_adjacent_bursts-3': 'ok '
                                                          "dict{builtins.str:'number_of_overlap_lines_with_adjacent_bursts': "
                                                          'builtins.int:-2} || input unchanged',
 'top-number_of_overlap_lines_with_adjacent_bursts-4': 'ok '
                                                       "dict{builtins.str:'number_of_overlap_lines_with_adjacent_bursts': "
                                                       'builtins.int:1} || input unchanged',
 'nested-number_of_overlap_lines_with_adjacent_bursts-4': 'ok '
                                                          "dict{builtins.str:'number_of_overlap_lines_with_adjacent_bursts': "
                                                          'builtins.int:1} || input unchanged',
 'top-number_of_overlap_lines_with_adjacent_bursts-5': 'ok dict{} || input unchanged',
 'nested-number_of_overlap_lines_with_adjacent_bursts-5': 'ok dict{} || input unchanged',
 'top-number_of_overlap_lines_with_adjacent_bursts-6': 'ok '
                                                       "dict{builtins.str:'number_of_overlap_lines_with_adjacent_bursts': "
                                                       'builtins.float:1.5} || input unchanged',
 'nested-number_of_overlap_lines_with_adjacent_bursts-6': 'ok '
                                                          "dict{builtins.str:'number_of_overlap_lines_with_adjacent_bursts': "
                                                          'builtins.float:1.5} || input unchanged',
 'top-number_of_overlap_lines_with_adjacent_bursts-7': 'ok '
                                                       "dict{builtins.str:'number_of_overlap_lines_with_adjacent_bursts': "
                                                       'builtins.float:nan} || input unchanged',
 'nested-number_of_overlap_lines_with_adjacent_bursts-7': 'ok '
                                                          "dict{builtins.str:'number_of_overlap_lines_with_adjacent_bursts': "
                                                          'builtins.float:nan} || input unchanged',
 'top-number_of_overlap_lines_with_adjacent_bursts-8': 'ok '
                                                       "dict{builtins.str:'number_of_overlap_lines_with_adjacent_bursts': "
                                                       'builtins.float:nan} || input unchanged',
 'nested-number_of_overlap_lines_with_adjacent_bursts-8': 'ok '
                                                          "dict{builtins.str:'number_of_overlap_lines_with_adjacent_bursts': "
                                                          'builtins.float:nan} || input unchanged',
 'top-number_of_overlap_lines_with_adjacent_bursts-9': 'ok '
                                                       "dict{builtins.str:'number_of_overlap_lines_with_adjacent_bursts': "
                                                       'builtins.float:inf} || input unchanged',
 'nested-number_of_overlap_lines_with_adjacent_bursts-9': 'ok '
                                                          "dict{builtins.str:'number_of_overlap_lines_with_adjacent_bursts': "
                                                          'builtins.float:inf} || input unchanged',
 'top-number_of_overlap_lines_with_adjacent_bursts-10': 'ok '
                                                        "dict{builtins.str:'number_of_overlap_lines_with_adjacent_bursts': "
                                                        'builtins.float:-inf} || input unchanged',
 'nested-number_of_overlap_lines_with_adjacent_bursts-10': 'ok '
                                                           "dict{builtins.str:'number_of_overlap_lines_with_adjacent_bursts': "
                                                           'builtins.float:-inf} || input '
                                                           'unchanged',
 'top-number_of_overlap_lines_with_adjacent_bursts-11': 'ok '
                                                        "dict{builtins.str:'number_of_overlap_lines_with_adjacent_bursts': "
                                                        'builtins.bool:True} || input unchanged',
 'nested-number_of_overlap_lines_with_adjacent_bursts-11': 'ok '
                                                           "dict{builtins.str:'number_of_overlap_lines_with_adjacent_bursts': "
                                                           'builtins.bool:True} || input unchanged',
 'top-number_of_overlap_lines_with_adjacent_bursts-12': 'ok '
                                                        "dict{builtins.str:'number_of_overlap_lines_with_adjacent_bursts': "
                                                        'builtins.bool:False} || input unchanged',
 'nested-number_of_overlap_lines_with_adjacent_bursts-12': 'ok '
                                                           "dict{builtins.str:'number_of_overlap_lines_with_adjacent_bursts': "
                                                           'builtins.bool:False} || input '
                                                           'unchanged',
 'top-number_of_overlap_lines_with_adjacent_bursts-13': 'ok '
                                                        "dict{builtins.str:'number_of_overlap_lines_with_adjacent_bursts': "
                                                        'builtins.NoneType:None} || input '
                                                        'unchanged',
 'nested-number_of_overlap_lines_with_adjacent_bursts-13': 'ok '
                                                           "dict{builtins.str:'number_of_overlap_lines_with_adjacent_bursts': "
                                                           'builtins.NoneType:None} || input '
                                                           'unchanged',
 'top-number_of_overlap_lines_with_adjacent_bursts-14': 'ok '
                                                        "dict{builtins.str:'number_of_overlap_lines_with_adjacent_bursts': "
                                                        "builtins.str:''} || input unchanged",
 'nested-number_of_overlap_lines_with_adjacent_bursts-14': 'ok '
                                                           "dict{builtins.str:'number_of_overlap_lines_with_adjacent_bursts': "
                                                           "builtins.str:''} || input unchanged",
 'top-number_of_overlap_lines_with_adjacent_bursts-15': 'ok '
                                                        "dict{builtins.str:'number_of_overlap_lines_with_adjacent_bursts': "
                                                        "builtins.str:'abc'} || input unchanged",
 'nested-number_of_overlap_lines_with_adjacent_bursts-15': 'ok '
                                                           "dict{builtins.str:'number_of_overlap_lines_with_adjacent_bursts': "
                                                           "builtins.str:'abc'} || input unchanged",
 'top-number_of_overlap_lines_with_adjacent_bursts-16': 'ok '
                                                        "dict{builtins.str:'number_of_overlap_lines_with_adjacent_bursts': "
                                                        "builtins.str:'-1'} || input unchanged",
 'nested-number_of_overlap_lines_with_adjacent_bursts-16': 'ok '
                                                           "dict{builtins.str:'number_of_overlap_lines_with_adjacent_bursts': "
                                                           "builtins.str:'-1'} || input unchanged",
 'top-number_of_overlap_lines_with_adjacent_bursts-17': 'ok '
                                                        "dict{builtins.str:'number_of_overlap_lines_with_adjacent_bursts': "
                                                        "builtins.bytes:b'x'} || input unchanged",
 'nested-number_of_overlap_lines_with_adjacent_bursts-17': 'ok '
                                                           "dict{builtins.str:'number_of_overlap_lines_with_adjacent_bursts': "
                                                           "builtins.bytes:b'x'} || input "
                                                           'unchanged',
 'top-number_of_overlap_lines_with_adjacent_bursts-18': 'ok dict{} || input unchanged',
 'nested-number_of_overlap_lines_with_adjacent_bursts-18': 'ok dict{} || input unchanged',
 'top-number_of_overlap_lines_with_adjacent_bursts-19': 'ok '
                                                        "dict{builtins.str:'number_of_overlap_lines_with_adjacent_bursts': "
                                                        'list[builtins.int:0]} || input unchanged',
 'nested-number_of_overlap_lines_with_adjacent_bursts-19': 'ok '
                                                           "dict{builtins.str:'number_of_overlap_lines_with_adjacent_bursts': "
                                                           'list[builtins.int:0]} || input '
                                                           'unchanged',
 'top-number_of_overlap_lines_with_adjacent_bursts-20': 'ok '
                                                        "dict{builtins.str:'number_of_overlap_lines_with_adjacent_bursts': "
                                                        'list[builtins.int:-1]} || input unchanged',
 'nested-number_of_overlap_lines_with_adjacent_bursts-20': 'ok '
                                                           "dict{builtins.str:'number_of_overlap_lines_with_adjacent_bursts': "
                                                           'list[builtins.int:-1]} || input '
                                                           'unchanged',
 'top-number_of_overlap_lines_with_adjacent_bursts-21': 'ok '
                                                        "dict{builtins.str:'number_of_overlap_lines_with_adjacent_bursts': "
                                                        'list[list[]]} || input unchanged',
 'nested-number_of_overlap_lines_with_adjacent_bursts-21': 'ok '
                                                           "dict{builtins.str:'number_of_overlap_lines_with_adjacent_bursts': "
                                                           'list[list[]]} || input unchanged',
 'top-number_of_overlap_lines_with_adjacent_bursts-22': 'ok '
                                                        "dict{builtins.str:'number_of_overlap_lines_with_adjacent_bursts': "
                                                        'tuple[]} || input unchanged',
 'nested-number_of_overlap_lines_with_adjacent_bursts-22': 'ok '
                                                           "dict{builtins.str:'number_of_overlap_lines_with_adjacent_bursts': "
                                                           'tuple[]} || input unchanged',
 'top-number_of_overlap_lines_with_adjacent_bursts-23': 'ok '
                                                        "dict{builtins.str:'number_of_overlap_lines_with_adjacent_bursts': "
                                                        'tuple[builtins.int:1, builtins.int:2]} || '
                                                        'input unchanged',
 'nested-number_of_overlap_lines_with_adjacent_bursts-23': 'ok '
                                                           "dict{builtins.str:'number_of_overlap_lines_with_adjacent_bursts': "
                                                           'tuple[builtins.int:1, builtins.int:2]} '
                                                           '|| input unchanged',
 'top-number_of_overlap_lines_with_adjacent_bursts-24': 'ok dict{} || input unchanged',
 'nested-number_of_overlap_lines_with_adjacent_bursts-24': 'ok '
                                                           "dict{builtins.str:'number_of_overlap_lines_with_adjacent_bursts': "
                                                           'dict{}} || input unchanged',
 'top-number_of_overlap_lines_with_adjacent_bursts-25': 'ok dict{} || input unchanged',
 'nested-number_of_overlap_lines_with_adjacent_bursts-25': 'ok '
                                                           "dict{builtins.str:'number_of_overlap_lines_with_adjacent_bursts': "
                                                           "dict{builtins.str:'a': "
                                                           'builtins.int:1}} || input unchanged',
 'top-number_of_overlap_lines_with_adjacent_bursts-26': 'ok '
                                                        "dict{builtins.str:'number_of_burst_data': "
                                                        'builtins.int:3} || input unchanged',
 'nested-number_of_overlap_lines_with_adjacent_bursts-26': 'ok '
                                                           "dict{builtins.str:'number_of_overlap_lines_with_adjacent_bursts': "
                                                           "dict{builtins.str:'number_of_burst_data': "
                                                           'builtins.int:3}} || input unchanged',
 'top-number_of_overlap_lines_with_adjacent_bursts-27': 'ok '
                                                        "dict{builtins.str:'number_of_overlap_lines_with_adjacent_bursts': "
                                                        'builtins.set:set()} || input unchanged',
 'nested-number_of_overlap_lines_with_adjacent_bursts-27': 'ok '
                                                           "dict{builtins.str:'number_of_overlap_lines_with_adjacent_bursts': "
                                                           'builtins.set:set()} || input unchanged',
 'top-number_of_overlap_lines_with_adjacent_bursts-28': 'ok dict{} || input unchanged',
 'nested-number_of_overlap_lines_with_adjacent_bursts-28': 'ok dict{} || input unchanged',
 'top-number_of_overlap_lines_with_adjacent_bursts-29': 'ok '
                                                        "dict{builtins.str:'number_of_overlap_lines_with_adjacent_bursts': "
                                                        'numpy.int64:np.int64(5)} || input '
                                                        'unchanged',
 'nested-number_of_overlap_lines_with_adjacent_bursts-29': 'ok '
                                                           "dict{builtins.str:'number_of_overlap_lines_with_adjacent_bursts': "
                                                           'numpy.int64:np.int64(5)} || input '
                                                           'unchanged',
 'top-number_of_overlap_lines_with_adjacent_bursts-30': 'ok '
                                                        "dict{builtins.str:'number_of_overlap_lines_with_adjacent_bursts': "
                                                        'numpy.float64:np.float64(nan)} || input '
                                                        'unchanged',
 'nested-number_of_overlap_lines_with_adjacent_bursts-30': 'ok '
                                                           "dict{builtins.str:'number_of_overlap_lines_with_adjacent_bursts': "
                                                           'numpy.float64:np.float64(nan)} || '
                                                           'input unchanged',
 'top-number_of_overlap_lines_with_adjacent_bursts-31': 'ok dict{} || input unchanged',
 'nested-number_of_overlap_lines_with_adjacent_bursts-31': 'ok dict{} || input unchanged',
 'top-number_of_overlap_lines_with_adjacent_bursts-32': 'ok '
                                                        "dict{builtins.str:'number_of_overlap_lines_with_adjacent_bursts': "
                                                        'numpy.float64:np.float64(2.5)} || input '
                                                        'unchanged',
 'nested-number_of_overlap_lines_with_adjacent_bursts-32': 'ok '
                                                           "dict{builtins.str:'number_of_overlap_lines_with_adjacent_bursts': "
                                                           'numpy.float64:np.float64(2.5)} || '
                                                           'input unchanged',
 'top-number_of_overlap_lines_with_adjacent_bursts-33': 'ok dict{} || input unchanged',
 'nested-number_of_overlap_lines_with_adjacent_bursts-33': 'ok dict{} || input unchanged',
 'top-number_of_overlap_lines_with_adjacent_bursts-34': 'ok '
                                                        "dict{builtins.str:'number_of_overlap_lines_with_adjacent_bursts': "
                                                        'ndarray[int64]7} || input unchanged',
 'nested-number_of_overlap_lines_with_adjacent_bursts-34': 'ok '
                                                           "dict{builtins.str:'number_of_overlap_lines_with_adjacent_bursts': "
                                                           'ndarray[int64]7} || input unchanged',
 'top-number_of_overlap_lines_with_adjacent_bursts-35': 'raised builtins.ValueError: The truth '
                                                        'value of an array with more than one '
                                                        'element is ambiguous. Use a.any() or '
                                                        'a.all() || input unchanged',
 'nested-number_of_overlap_lines_with_adjacent_bursts-35': 'raised builtins.ValueError: The truth '
                                                           'value of an array with more than one '
                                                           'element is ambiguous. Use a.any() or '
                                                           'a.all() || input unchanged',
 'top-number_of_overlap_lines_with_adjacent_bursts-36': 'raised builtins.ValueError: The truth '
                                                        'value of an empty array is ambiguous. Use '
                                                        '`array.size > 0` to check that an array '
                                                        'is not empty. || input unchanged',
 'nested-number_of_overlap_lines_with_adjacent_bursts-36': 'raised builtins.ValueError: The truth '
                                                           'value of an empty array is ambiguous. '
                                                           'Use `array.size > 0` to check that an '
                                                           'array is not empty. || input unchanged',
 'top-number_of_overlap_lines_with_adjacent_bursts-37': 'ok dict{} || input unchanged',
 'nested-number_of_overlap_lines_with_adjacent_bursts-37': 'ok dict{} || input unchanged',
 'top-number_of_overlap_lines_with_adjacent_bursts-38': 'ok '
                                                        "dict{builtins.str:'number_of_overlap_lines_with_adjacent_bursts': "
                                                        "numpy.datetime64:np.datetime64('NaT','ns')} "
                                                        '|| input unchanged',
 'nested-number_of_overlap_lines_with_adjacent_bursts-38': 'ok '
                                                           "dict{builtins.str:'number_of_overlap_lines_with_adjacent_bursts': "
                                                           "numpy.datetime64:np.datetime64('NaT','ns')} "
                                                           '|| input unchanged',
 'top-number_of_overlap_lines_with_adjacent_bursts-39': 'ok dict{} || input unchanged',
 'nested-number_of_overlap_lines_with_adjacent_bursts-39': 'ok dict{} || input unchanged',
 'top-number_of_overlap_lines_with_adjacent_bursts-40': 'ok '
                                                        "dict{builtins.str:'number_of_overlap_lines_with_adjacent_bursts': "
                                                        "decimal.Decimal:Decimal('NaN')} || input "
                                                        'unchanged',
 'nested-number_of_overlap_lines_with_adjacent_bursts-40': 'ok '
                                                           "dict{builtins.str:'number_of_overlap_lines_with_adjacent_bursts': "
                                                           "decimal.Decimal:Decimal('NaN')} || "
                                                           'input unchanged',
 'top-number_of_overlap_lines_with_adjacent_bursts-41': 'ok '
                                                        "dict{builtins.str:'number_of_overlap_lines_with_adjacent_bursts': "
                                                        "decimal.Decimal:Decimal('12')} || input "
                                                        'unchanged',
 'nested-number_of_overlap_lines_with_adjacent_bursts-41': 'ok '
                                                           "dict{builtins.str:'number_of_overlap_lines_with_adjacent_bursts': "
                                                           "decimal.Decimal:Decimal('12')} || "
                                                           'input unchanged',
 'top-number_of_overlap_lines_with_adjacent_bursts-42': 'ok dict{} || input unchanged',
 'nested-number_of_overlap_lines_with_adjacent_bursts-42': 'ok dict{} || input unchanged',
 'top-number_of_overlap_lines_with_adjacent_bursts-43': 'ok '
                                                        "dict{builtins.str:'number_of_overlap_lines_with_adjacent_bursts': "
                                                        'fractions.Fraction:Fraction(1, 3)} || '
                                                        'input unchanged',
 'nested-number_of_overlap_lines_with_adjacent_bursts-43': 'ok '
                                                           "dict{builtins.str:'number_of_overlap_lines_with_adjacent_bursts': "
                                                           'fractions.Fraction:Fraction(1, 3)} || '
                                                           'input unchanged',
 'top-number_of_overlap_lines_with_adjacent_bursts-44': 'ok '
                                                        "dict{builtins.str:'number_of_overlap_lines_with_adjacent_bursts': "
                                                        'builtins.complex:(1+0j)} || input '
                                                        'unchanged',
 'nested-number_of_overlap_lines_with_adjacent_bursts-44': 'ok '
                                                           "dict{builtins.str:'number_of_overlap_lines_with_adjacent_bursts': "
                                                           'builtins.complex:(1+0j)} || input '
                                                           'unchanged',
 'top-number_of_overlap_lines_with_adjacent_bursts-45': 'ok dict{} || input unchanged',
 'nested-number_of_overlap_lines_with_adjacent_bursts-45': 'ok dict{} || input unchanged',
 'top-number_of_overlap_lines_with_adjacent_bursts-46': 'sha256:27e87c1c15696fdc7dc96e58f7cb2e94d30992cc970ed4ad6079035715d89863 '
                                                        'len=503',
 'nested-number_of_overlap_lines_with_adjacent_bursts-46': 'sha256:27e87c1c15696fdc7dc96e58f7cb2e94d30992cc970ed4ad6079035715d89863 '
                                                           'len=503',
 'top-number_of_overlap_lines_with_adjacent_bursts-47': 'ok '
                                                        "dict{builtins.str:'number_of_overlap_lines_with_adjacent_bursts': "
                                                        'datetime.datetime:datetime.datetime(2020, '
                                                        '1, 1, 0, 0)} || input unchanged',
 'nested-number_of_overlap_lines_with_adjacent_bursts-47': 'ok '
                                                           "dict{builtins.str:'number_of_overlap_lines_with_adjacent_bursts': "
                                                           'datetime.datetime:datetime.datetime(2020, '
                                                           '1, 1, 0, 0)} || input unchanged',
 'top-number_of_overlap_lines_with_adjacent_bursts-48': 'ok '
                                                        "dict{builtins.str:'number_of_overlap_lines_with_adjacent_bursts': "
                                                        'equiv.Weird:Weird()} || input unchanged',
 'nested-number_of_overlap_lines_with_adjacent_bursts-48': 'ok '
                                                           "dict{builtins.str:'number_of_overlap_lines_with_adjacent_bursts': "
                                                           'equiv.Weird:Weird()} || input '
                                                           'unchanged',
 'top-number_of_overlap_lines_with_adjacent_bursts-49': 'ok dict{} || input unchanged',
 'nested-number_of_overlap_lines_with_adjacent_bursts-49': 'ok dict{} || input unchanged',
 'top-number_of_overlap_lines_with_adjacent_bursts-50': 'ok '
                                                        "dict{builtins.str:'number_of_overlap_lines_with_adjacent_bursts': "
                                                        'equiv.Floatable:Floatable(nan)} || input '
                                                        'unchanged',
 'nested-number_of_overlap_lines_with_adjacent_bursts-50': 'ok '
                                                           "dict{builtins.str:'number_of_overlap_lines_with_adjacent_bursts': "
                                                           'equiv.Floatable:Floatable(nan)} || '
                                                           'input unchanged',
 'top-number_of_overlap_lines_with_adjacent_bursts-51': 'ok '
                                                        "dict{builtins.str:'number_of_overlap_lines_with_adjacent_bursts': "
                                                        'equiv.Floatable:Floatable(4.0)} || input '
                                                        'unchanged',
 'nested-number_of_overlap_lines_with_adjacent_bursts-51': 'ok '
                                                           "dict{builtins.str:'number_of_overlap_lines_with_adjacent_bursts': "
                                                           'equiv.Floatable:Floatable(4.0)} || '
                                                           'input unchanged',
 'top-unknown_attribute-0': 'ok dict{} || input unchanged',
 'nested-unknown_attribute-0': 'ok dict{} || input unchanged',
 'top-unknown_attribute-1': 'ok dict{} || input unchanged',
 'nested-unknown_attribute-1': 'ok dict{} || input unchanged',
 'top-unknown_attribute-2': 'ok dict{} || input unchanged',
 'nested-unknown_attribute-2': 'ok dict{} || input unchanged',
 'top-unknown_attribute-3': 'ok dict{} || input unchanged',
 'nested-unknown_attribute-3': 'ok dict{} || input unchanged',
 'top-unknown_attribute-4': 'ok dict{} || input unchanged',
 'nested-unknown_attribute-4': 'ok dict{} || input unchanged',
 'top-unknown_attribute-5': 'ok dict{} || input unchanged',
 'nested-unknown_attribute-5': 'ok dict{} || input unchanged',
 'top-unknown_attribute-6': 'ok dict{} || input unchanged',
 'nested-unknown_attribute-6': 'ok dict{} || input unchanged',
 'top-unknown_attribute-7': 'ok dict{} || input unchanged',
 'nested-unknown_attribute-7': 'ok dict{} || input unchanged',
 'top-unknown_attribute-8': 'ok dict{} || input unchanged',
 'nested-unknown_attribute-8': 'ok dict{} || input unchanged',
 'top-unknown_attribute-9': 'ok dict{} || input unchanged',
 'nested-unknown_attribute-9': 'ok dict{} || input unchanged',
 'top-unknown_attribute-10': 'ok dict{} || input unchanged',
 'nested-unknown_attribute-10': 'ok dict{} || input unchanged',
 'top-unknown_attribute-11': 'ok dict{} || input unchanged',
 'nested-unknown_attribute-11': 'ok dict{} || input unchanged',
 'top-unknown_attribute-12': 'ok dict{} || input unchanged',
 'nested-unknown_attribute-12': 'ok dict{} || input unchanged',
 'top-unknown_attribute-13': 'ok dict{} || input unchanged',
 'nested-unknown_attribute-13': 'ok dict{} || input unchanged',
 'top-unknown_attribute-14': 'ok dict{} || input unchanged',
 'nested-unknown_attribute-14': 'ok dict{} || input unchanged',
 'top-unknown_attribute-15': 'ok dict{} || input unchanged',
 'nested-unknown_attribute-15': 'ok dict{} || input unchanged',
 'top-unknown_attribute-16': 'ok dict{} || input unchanged',
 'nested-unknown_attribute-16': 'ok dict{} || input unchanged',
 'top-unknown_attribute-17': 'ok dict{} || input unchanged',
 'nested-unknown_attribute-17': 'ok dict{} || input unchanged',
 'top-unknown_attribute-18': 'ok dict{} || input unchanged',
 'nested-unknown_attribute-18': 'ok dict{} || input unchanged',
 'top-unknown_attribute-19': 'ok dict{} || input unchanged',
 'nested-unknown_attribute-19': 'ok dict{} || input unchanged',
 'top-unknown_attribute-20': 'ok dict{} || input unchanged',
 'nested-unknown_attribute-20': 'ok dict{} || input unchanged',
 'top-unknown_attribute-21': 'ok dict{} || input unchanged',
 'nested-unknown_attribute-21': 'ok dict{} || input unchanged',
 'top-unknown_attribute-22': 'ok dict{} || input unchanged',
 'nested-unknown_attribute-22': 'ok dict{} || input unchanged',
 'top-unknown_attribute-23': 'ok dict{} || input unchanged',
 'nested-unknown_attribute-23': 'ok dict{} || input unchanged',
 'top-unknown_attribute-24': 'ok dict{} || input unchanged',
 'nested-unknown_attribute-24': 'ok dict{} || input unchanged',
 'top-unknown_attribute-25': 'ok dict{} || input unchanged',
 'nested-unknown_attribute-25': 'ok dict{} || input unchanged',
 'top-unknown_attribute-26': "ok dict{builtins.str:'number_of_burst_data': builtins.int:3} || "
                             'input unchanged',
 'nested-unknown_attribute-26': 'ok dict{} || input unchanged',
 'top-unknown_attribute-27': 'ok dict{} || input unchanged',
 'nested-unknown_attribute-27': 'ok dict{} || input unchanged',
 'top-unknown_attribute-28': 'ok dict{} || input unchanged',
 'nested-unknown_attribute-28': 'ok dict{} || input unchanged',
 'top-unknown_attribute-29': 'ok dict{} || input unchanged',
 'nested-unknown_attribute-29': 'ok dict{} || input unchanged',
 'top-unknown_attribute-30': 'ok dict{} || input unchanged',
 'nested-unknown_attribute-30': 'ok dict{} || input unchanged',
 'top-unknown_attribute-31': 'ok dict{} || input unchanged',
 'nested-unknown_attribute-31': 'ok dict{} || input unchanged',
 'top-unknown_attribute-32': 'ok dict{} || input unchanged',
 'nested-unknown_attribute-32': 'ok dict{} || input unchanged',
 'top-unknown_attribute-33': 'ok dict{} || input unchanged',
 'nested-unknown_attribute-33': 'ok dict{} || input unchanged',
 'top-unknown_attribute-34': 'ok dict{} || input unchanged',
 'nested-unknown_attribute-34': 'ok dict{} || input unchanged',
 'top-unknown_attribute-35': 'ok dict{} || input unchanged',
 'nested-unknown_attribute-35': 'ok dict{} || input unchanged',
 'top-unknown_attribute-36': 'ok dict{} || input unchanged',
 'nested-unknown_attribute-36': 'ok dict{} || input unchanged',
 'top-unknown_attribute-37': 'ok dict{} || input unchanged',
 'nested-unknown_attribute-37': 'ok dict{} || input unchanged',
 'top-unknown_attribute-38': 'ok dict{} || input unchanged',
 'nested-unknown_attribute-38': 'ok dict{} || input unchanged',
 'top-unknown_attribute-39': 'ok dict{} || input unchanged',
 'nested-unknown_attribute-39': 'ok dict{} || input unchanged',
 'top-unknown_attribute-40': 'ok dict{} || input unchanged',
 'nested-unknown_attribute-40': 'ok dict{} || input unchanged',
 'top-unknown_attribute-41': 'ok dict{} || input unchanged',
 'nested-unknown_attribute-41': 'ok dict{} || input unchanged',
 'top-unknown_attribute-42': 'ok dict{} || input unchanged',
 'nested-unknown_attribute-42': 'ok dict{} || input unchanged',
 'top-unknown_attribute-43': 'ok dict{} || input unchanged',
 'nested-unknown_attribute-43': 'ok dict{} || input unchanged',
 'top-unknown_attribute-44': 'ok dict{} || input unchanged',
 'nested-unknown_attribute-44': 'ok dict{} || input unchanged',
 'top-unknown_attribute-45': 'ok dict{} || input unchanged',
 'nested-unknown_attribute-45': 'ok dict{} || input unchanged',
 'top-unknown_attribute-46': 'ok dict{} || input unchanged',
 'nested-unknown_attribute-46': 'ok dict{} || input unchanged',
 'top-unknown_attribute-47': 'ok dict{} || input unchanged',
 'nested-unknown_attribute-47': 'ok dict{} || input unchanged',
 'top-unknown_attribute-48': 'ok dict{} || input unchanged',
 'nested-unknown_attribute-48': 'ok dict{} || input unchanged',
 'top-unknown_attribute-49': 'ok dict{} || input unchanged',
 'nested-unknown_attribute-49': 'ok dict{} || input unchanged',
 'top-unknown_attribute-50': 'ok dict{} || input unchanged',
 'nested-unknown_attribute-50': 'ok dict{} || input unchanged',
 'top-unknown_attribute-51': 'ok dict{} || input unchanged',
 'nested-unknown_attribute-51': 'ok dict{} || input unchanged',
 'top-preamble-0': 'ok dict{} || input unchanged',
 'nested-preamble-0': 'ok dict{} || input unchanged',
 'top-preamble-1': 'ok dict{} || input unchanged',
 'nested-preamble-1': 'ok dict{} || input unchanged',
 'top-preamble-2': 'ok dict{} || input unchanged',
 'nested-preamble-2': 'ok dict{} || input unchanged',
 'top-preamble-3': 'ok dict{} || input unchanged',
 'nested-preamble-3': 'ok dict{} || input unchanged',
 'top-preamble-4': 'ok dict{} || input unchanged',
 'nested-preamble-4': 'ok dict{} || input unchanged',
 'top-preamble-5': 'ok dict{} || input unchanged',
 'nested-preamble-5': 'ok dict{} || input unchanged',
 'top-preamble-6': 'ok dict{} || input unchanged',
 'nested-preamble-6': 'ok dict{} || input unchanged',
 'top-preamble-7': 'ok dict{} || input unchanged',
 'nested-preamble-7': 'ok dict{} || input unchanged',
 'top-preamble-8': 'ok dict{} || input unchanged',
 'nested-preamble-8': 'ok dict{} || input unchanged',
 'top-preamble-9': 'ok dict{} || input unchanged',
 'nested-preamble-9': 'ok dict{} || input unchanged',
 'top-preamble-10': 'ok dict{} || input unchanged',
 'nested-preamble-10': 'ok dict{} || input unchanged',
 'top-preamble-11': 'ok dict{} || input unchanged',
 'nested-preamble-11': 'ok dict{} || input unchanged',
 'top-preamble-12': 'ok dict{} || input unchanged',
 'nested-preamble-12': 'ok dict{} || input unchanged',
 'top-preamble-13': 'ok dict{} || input unchanged',
 'nested-preamble-13': 'ok dict{} || input unchanged',
 'top-preamble-14': 'ok dict{} || input unchanged',
 'nested-preamble-14': 'ok dict{} || input unchanged',
 'top-preamble-15': 'ok dict{} || input unchanged',
 'nested-preamble-15': 'ok dict{} || input unchanged',
 'top-preamble-16': 'ok dict{} || input unchanged',
 'nested-preamble-16': 'ok dict{} || input unchanged',
 'top-preamble-17': 'ok dict{} || input unchanged',
 'nested-preamble-17': 'ok dict{} || input unchanged',
 'top-preamble-18': 'ok dict{} || input unchanged',
 'nested-preamble-18': 'ok dict{} || input unchanged',
 'top-preamble-19': 'ok dict{} || input unchanged',
 'nested-preamble-19': 'ok dict{} || input unchanged',
 'top-preamble-20': 'ok dict{} || input unchanged',
 'nested-preamble-20': 'ok dict{} || input unchanged',
 'top-preamble-21': 'ok dict{} || input unchanged',
 'nested-preamble-21': 'ok dict{} || input unchanged',
 'top-preamble-22': 'ok dict{} || input unchanged',
 'nested-preamble-22': 'ok dict{} || input unchanged',
 'top-preamble-23': 'ok dict{} || input unchanged',
 'nested-preamble-23': 'ok dict{} || input unchanged',
 'top-preamble-24': 'ok dict{} || input unchanged',
 'nested-preamble-24': 'ok dict{} || input unchanged',
 'top-preamble-25': 'ok dict{} || input unchanged',
 'nested-preamble-25': 'ok dict{} || input unchanged',
 'top-preamble-26': 'ok dict{} || input unchanged',
 'nested-preamble-26': 'ok dict{} || input unchanged',
 'top-preamble-27': 'ok dict{} || input unchanged',
 'nested-preamble-27': 'ok dict{} || input unchanged',
 'top-preamble-28': 'ok dict{} || input unchanged',
 'nested-preamble-28': 'ok dict{} || input unchanged',
 'top-preamble-29': 'ok dict{} || input unchanged',
 'nested-preamble-29': 'ok dict{} || input unchanged',
 'top-preamble-30': 'ok dict{} || input unchanged',
 'nested-preamble-30': 'ok dict{} || input unchanged',
 'top-preamble-31': 'ok dict{} || input unchanged',
 'nested-preamble-31': 'ok dict{} || input unchanged',
 'top-preamble-32': 'ok dict{} || input unchanged',
 'nested-preamble-32': 'ok dict{} || input unchanged',
 'top-preamble-33': 'ok dict{} || input unchanged',
 'nested-preamble-33': 'ok dict{} || input unchanged',
 'top-preamble-34': 'ok dict{} || input unchanged',
 'nested-preamble-34': 'ok dict{} || input unchanged',
 'top-preamble-35': 'ok dict{} || input unchanged',
 'nested-preamble-35': 'ok dict{} || input unchanged',
 'top-preamble-36': 'ok dict{} || input unchanged',
 'nested-preamble-36': 'ok dict{} || input unchanged',
 'top-preamble-37': 'ok dict{} || input unchanged',
 'nested-preamble-37': 'ok dict{} || input unchanged',
 'top-preamble-38': 'ok dict{} || input unchanged',
 'nested-preamble-38': 'ok dict{} || input unchanged',
 'top-preamble-39': 'ok dict{} || input unchanged',
 'nested-preamble-39': 'ok dict{} || input unchanged',
 'top-preamble-40': 'ok dict{} || input unchanged',
 'nested-preamble-40': 'ok dict{} || input unchanged',
 'top-preamble-41': 'ok dict{} || input unchanged',
 'nested-preamble-41': 'ok dict{} || input unchanged',
 'top-preamble-42': 'ok dict{} || input unchanged',
 'nested-preamble-42': 'ok dict{} || input unchanged',
 'top-preamble-43': 'ok dict{} || input unchanged',
 'nested-preamble-43': 'ok dict{} || input unchanged',
 'top-preamble-44': 'ok dict{} || input unchanged',
 'nested-preamble-44': 'ok dict{} || input unchanged',
 'top-preamble-45': 'ok dict{} || input unchanged',
 'nested-preamble-45': 'ok dict{} || input unchanged',
 'top-preamble-46': 'ok dict{} || input unchanged',
 'nested-preamble-46': 'ok dict{} || input unchanged',
 'top-preamble-47': 'ok dict{} || input unchanged',
 'nested-preamble-47': 'ok dict{} || input unchanged',
 'top-preamble-48': 'ok dict{} || input unchanged',
 'nested-preamble-48': 'ok dict{} || input unchanged',
 'top-preamble-49': 'ok dict{} || input unchanged',
 'nested-preamble-49': 'ok dict{} || input unchanged',
 'top-preamble-50': 'ok dict{} || input unchanged',
 'nested-preamble-50': 'ok dict{} || input unchanged',
 'top-preamble-51': 'ok dict{} || input unchanged',
 'nested-preamble-51': 'ok dict{} || input unchanged',
 'top-valid_range-0': 'ok dict{} || input unchanged',
 'nested-valid_range-0': 'ok dict{} || input unchanged',
 'top-valid_range-1': 'ok dict{} || input unchanged',
 'nested-valid_range-1': 'ok dict{} || input unchanged',
 'top-valid_range-2': 'ok dict{} || input unchanged',
 'nested-valid_range-2': 'ok dict{} || input unchanged',
 'top-valid_range-3': 'ok dict{} || input unchanged',
 'nested-valid_range-3': 'ok dict{} || input unchanged',
 'top-valid_range-4': 'ok dict{} || input unchanged',
 'nested-valid_range-4': 'ok dict{} || input unchanged',
 'top-valid_range-5': 'ok dict{} || input unchanged',
 'nested-valid_range-5': 'ok dict{} || input unchanged',
 'top-valid_range-6': 'ok dict{} || input unchanged',
 'nested-valid_range-6': 'ok dict{} || input unchanged',
 'top-valid_range-7': 'ok dict{} || input unchanged',
 'nested-valid_range-7': 'ok dict{} || input unchanged',
 'top-valid_range-8': 'ok dict{} || input unchanged',
 'nested-valid_range-8': 'ok dict{} || input unchanged',
 'top-valid_range-9': 'ok dict{} || input unchanged',
 'nested-valid_range-9': 'ok dict{} || input unchanged',
 'top-valid_range-10': 'ok dict{} || input unchanged',
 'nested-valid_range-10': 'ok dict{} || input unchanged',
 'top-valid_range-11': 'ok dict{} || input unchanged',
 'nested-valid_range-11': 'ok dict{} || input unchanged',
 'top-valid_range-12': 'ok dict{} || input unchanged',
 'nested-valid_range-12': 'ok dict{} || input unchanged',
 'top-valid_range-13': 'ok dict{} || input unchanged',
 'nested-valid_range-13': 'ok dict{} || input unchanged',
 'top-valid_range-14': 'ok dict{} || input unchanged',
 'nested-valid_range-14': 'ok dict{} || input unchanged',
 'top-valid_range-15': 'ok dict{} || input unchanged',
 'nested-valid_range-15': 'ok dict{} || input unchanged',
 'top-valid_range-16': 'ok dict{} || input unchanged',
 'nested-valid_range-16': 'ok dict{} || input unchanged',
 'top-valid_range-17': 'ok dict{} || input unchanged',
 'nested-valid_range-17': 'ok dict{} || input unchanged',
 'top-valid_range-18': 'ok dict{} || input unchanged',
 'nested-valid_range-18': 'ok dict{} || input unchanged',
 'top-valid_range-19': 'ok dict{} || input unchanged',
 'nested-valid_range-19': 'ok dict{} || input unchanged',
 'top-valid_range-20': 'ok dict{} || input unchanged',
 'nested-valid_range-20': 'ok dict{} || input unchanged',
 'top-valid_range-21': 'ok dict{} || input unchanged',
 'nested-valid_range-21': 'ok dict{} || input unchanged',
 'top-valid_range-22': 'ok dict{} || input unchanged',
 'nested-valid_range-22': 'ok dict{} || input unchanged',
 'top-valid_range-23': 'ok dict{} || input unchanged',
 'nested-valid_range-23': 'ok dict{} || input unchanged',
 'top-valid_range-24': 'ok dict{} || input unchanged',
 'nested-valid_range-24': 'ok dict{} || input unchanged',
 'top-valid_range-25': 'ok dict{} || input unchanged',
 'nested-valid_range-25': 'ok dict{} || input unchanged',
 'top-valid_range-26': "ok dict{builtins.str:'number_of_burst_data': builtins.int:3} || input "
                       'unchanged',
 'nested-valid_range-26': 'ok dict{} || input unchanged',
 'top-valid_range-27': 'ok dict{} || input unchanged',
 'nested-valid_range-27': 'ok dict{} || input unchanged',
 'top-valid_range-28': 'ok dict{} || input unchanged',
 'nested-valid_range-28': 'ok dict{} || input unchanged',
 'top-valid_range-29': 'ok dict{} || input unchanged',
 'nested-valid_range-29': 'ok dict{} || input unchanged',
 'top-valid_range-30': 'ok dict{} || input unchanged',
 'nested-valid_range-30': 'ok dict{} || input unchanged',
 'top-valid_range-31': 'ok dict{} || input unchanged',
 'nested-valid_range-31': 'ok dict{} || input unchanged',
 'top-valid_range-32': 'ok dict{} || input unchanged',
 'nested-valid_range-32': 'ok dict{} || input unchanged',
 'top-valid_range-33': 'ok dict{} || input unchanged',
 'nested-valid_range-33': 'ok dict{} || input unchanged',
 'top-valid_range-34': 'ok dict{} || input unchanged',
 'nested-valid_range-34': 'ok dict{} || input unchanged',
 'top-valid_range-35': 'ok dict{} || input unchanged',
 'nested-valid_range-35': 'ok dict{} || input unchanged',
 'top-valid_range-36': 'ok dict{} || input unchanged',
 'nested-valid_range-36': 'ok dict{} || input unchanged',
 'top-valid_range-37': 'ok dict{} || input unchanged',
 'nested-valid_range-37': 'ok dict{} || input unchanged',
 'top-valid_range-38': 'ok dict{} || input unchanged',
 'nested-valid_range-38': 'ok dict{} || input unchanged',
 'top-valid_range-39': 'ok dict{} || input unchanged',
 'nested-valid_range-39': 'ok dict{} || input unchanged',
 'top-valid_range-40': 'ok dict{} || input unchanged',
 'nested-valid_range-40': 'ok dict{} || input unchanged',
 'top-valid_range-41': 'ok dict{} || input unchanged',
 'nested-valid_range-41': 'ok dict{} || input unchanged',
 'top-valid_range-42': 'ok dict{} || input unchanged',
 'nested-valid_range-42': 'ok dict{} || input unchanged',
 'top-valid_range-43': 'ok dict{} || input unchanged',
 'nested-valid_range-43': 'ok dict{} || input unchanged',
 'top-valid_range-44': 'ok dict{} || input unchanged',
 'nested-valid_range-44': 'ok dict{} || input unchanged',
 'top-valid_range-45': 'ok dict{} || input unchanged',
 'nested-valid_range-45': 'ok dict{} || input unchanged',
 'top-valid_range-46': 'ok dict{} || input unchanged',
 'nested-valid_range-46': 'ok dict{} || input unchanged',
 'top-valid_range-47': 'ok dict{} || input unchanged',
 'nested-valid_range-47': 'ok dict{} || input unchanged',
 'top-valid_range-48': 'ok dict{} || input unchanged',
 'nested-valid_range-48': 'ok dict{} || input unchanged',
 'top-valid_range-49': 'ok dict{} || input unchanged',
 'nested-valid_range-49': 'ok dict{} || input unchanged',
 'top-valid_range-50': 'ok dict{} || input unchanged',
 'nested-valid_range-50': 'ok dict{} || input unchanged',
 'top-valid_range-51': 'ok dict{} || input unchanged',
 'nested-valid_range-51': 'ok dict{} || input unchanged',
 'order-1': "ok dict{builtins.str:'interleaving_id': builtins.int:1, builtins.str:'valid_range': "
            "list[builtins.int:0, builtins.int:2], builtins.str:'number_of_burst_data': "
            "builtins.int:3, builtins.str:'number_of_lines_per_burst': builtins.int:4, "
            "builtins.str:'number_of_overlap_lines_with_adjacent_bursts': builtins.int:5} || input "
            'unchanged',
 'order-2': "ok dict{builtins.str:'number_of_overlap_lines_with_adjacent_bursts': builtins.int:5, "
            "builtins.str:'number_of_lines_per_burst': builtins.int:4, "
            "builtins.str:'number_of_burst_data': builtins.int:3, builtins.str:'valid_range': "
            "list[builtins.int:0, builtins.int:2], builtins.str:'interleaving_id': builtins.int:1} "
            '|| input unchanged',
 'order-3': "ok dict{builtins.str:'number_of_burst_data': builtins.int:2, "
            "builtins.str:'valid_range': list[builtins.int:0, builtins.int:9], "
            "builtins.str:'interleaving_id': builtins.str:'BSQ'} || input unchanged",
 'order-4': "ok dict{builtins.str:'valid_range': list[builtins.int:0, builtins.int:9]} || input "
            'unchanged',
 'order-5': "ok dict{builtins.str:'valid_range': list[builtins.int:0, builtins.int:9]} || input "
            'unchanged',
 'order-6': "ok dict{builtins.str:'number_of_burst_data': builtins.int:2} || input unchanged",
 'preamble-top-dict': "ok dict{builtins.str:'number_of_lines_per_burst': builtins.int:1} || input "
                      'unchanged',
 'preamble-nested': "ok dict{builtins.str:'number_of_burst_data': builtins.int:5} || input "
                    'unchanged',
 'preamble-nested-twice': 'ok dict{} || input unchanged',
 'known-as-section': "ok dict{builtins.str:'number_of_burst_data': builtins.int:4, "
                     "builtins.str:'interleaving_id': builtins.str:'x'} || input unchanged",
 'empty': 'ok dict{} || input unchanged',
 'non-str-keys': "ok dict{builtins.str:'number_of_burst_data': builtins.int:5, "
                 "builtins.str:'interleaving_id': builtins.str:'q'} || input unchanged",
 'ordered-dict': "ok dict{builtins.str:'number_of_burst_data': builtins.int:5} || input unchanged",
 'defaultdict': "ok dict{builtins.str:'number_of_burst_data': builtins.int:5} || input unchanged",
 'mappingproxy': "ok dict{builtins.str:'number_of_burst_data': builtins.int:5} || input unchanged",
 'chainmap': "ok dict{builtins.str:'interleaving_id': builtins.str:'a', "
             "builtins.str:'number_of_burst_data': builtins.int:5} || input unchanged",
 'not-a-mapping-0': "raised builtins.AttributeError: 'NoneType' object has no attribute 'items' || "
                    'input unchanged',
 'not-a-mapping-1': "raised builtins.AttributeError: 'int' object has no attribute 'items' || "
                    'input unchanged',
 'not-a-mapping-2': "raised builtins.AttributeError: 'str' object has no attribute 'items' || "
                    'input unchanged',
 'not-a-mapping-3': "raised builtins.AttributeError: 'list' object has no attribute 'items' || "
                    'input unchanged',
 'not-a-mapping-4': "raised builtins.AttributeError: 'list' object has no attribute 'items' || "
                    'input unchanged',
 'not-a-mapping-5': "raised builtins.AttributeError: 'tuple' object has no attribute 'items' || "
                    'input unchanged',
 'not-a-mapping-6': "raised builtins.AttributeError: 'set' object has no attribute 'items' || "
                    'input unchanged',
 'not-a-mapping-7': "raised builtins.AttributeError: 'bytes' object has no attribute 'items' || "
                    'input unchanged',
 'fresh': "list[dict{builtins.str:'valid_range': list[builtins.int:0, builtins.int:5, "
          "builtins.int:99], builtins.str:'number_of_burst_data': builtins.int:1, "
          "builtins.str:'extra': builtins.int:1}, dict{builtins.str:'valid_range': "
          "list[builtins.int:0, builtins.int:5], builtins.str:'number_of_burst_data': "
          'builtins.int:1}, builtins.bool:False, builtins.bool:False]',
 'identity': "[True, True, 'dict']",
 'transform-blank': 'sha256:c8f2ec2cb51c684e1851b592d524bcda25259d1dbfe29342c930274c20d92893 '
                    'len=824',
 'transform-l15': 'sha256:f70672e3f2688280d6a312c1f23c9f760b13d0dcf3a416f10303f57b7b1c90e2 len=897',
 'transform-l11-specan': 'sha256:17131befd9f4e3e8d9ee1c297cc2359b97f61f9a26308d8f0093d2888308fd15 '
                         'len=1018',
 'transform-zeros': 'sha256:6b5401b408041b9d9de81898dbc3c6a56200e690fc467ce6a6cd0995d7fb314b '
                    'len=1078',
 'transform-minus-one': 'sha256:c8f2ec2cb51c684e1851b592d524bcda25259d1dbfe29342c930274c20d92893 '
                        'len=824',
 'transform-negative': 'sha256:48c62bd740262a18a7fac7fae339fcbadcdf188c2d4b67c1ae4c6b77fcdd0e0c '
                       'len=1082',
 'transform-all': 'sha256:60898b049fb6e70557525ca4722ba20bd4c07a00732181dcaddb0fb9cb5edf1d '
                  'len=1083',
 'transform-no-interleaving': 'sha256:0125101bb37ec842177d79c526d5c30a3fbf0782bfc38181b5fb1315c0e163d9 '
                              'len=890',
 'transform-conflict': 'sha256:9ac64ca543f4df7375a71e8dbe611146c0a68d563899cfe6fb1904200672e535 '
                       'len=874'}
# EXPECTED-END


def test_equivalence():
    actual = {name: digest(text) for name, text in cases().items()}
    assert list(actual) == list(EXPECTED)
    for name, value in actual.items():
        assert value == EXPECTED[name], name


if __name__ == "__main__":
    if "--record" in sys.argv:
        actual = {name: digest(text) for name, text in cases().items()}
        path = pathlib.Path(__file__)
        source = path.read_text()
        head, rest = source.split("# EXPECTED-BEGIN\n", 1)
        _, tail = rest.split("# EXPECTED-END\n", 1)
        body = "EXPECTED = " + pprint.pformat(actual, width=100, sort_dicts=False) + "\n"
        path.write_text(head + "# EXPECTED-BEGIN\n" + body + "# EXPECTED-END\n" + tail)
        print(f"recorded {len(actual)} cases")
    else:
        test_equivalence()
        print(f"ok: {len(EXPECTED)} cases identical")
